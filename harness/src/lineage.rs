//! Column-level lineage of a rewritten plan: which output columns (and which row sets) still depend on rows of a
//! protected table without passing through a noise term or a thresholded key release. A conservative syntactic analysis.
use crate::ir::{contains_random, noise_term};
use qrlew::expr::Expr;
use qrlew::relation::{JoinOperator, Relation, Variant as _};
use std::collections::HashMap;

#[derive(Clone, Debug, Default)]
pub struct Lin {
    /// per output column: depends on protected rows without sanitisation
    pub raw: Vec<bool>,
    /// per output column: is a Gaussian noise term (or computed only from such)
    pub noised: Vec<bool>,
    /// the set of distinct rows (restricted to the non-raw columns) may depend on protected rows
    pub supp_raw: bool,
    /// the multiplicity of rows may depend on protected rows
    pub mult_raw: bool,
    pub names: Vec<String>,
}

impl Lin {
    fn idx(&self, name: &str) -> Option<usize> {
        self.names.iter().position(|n| n == name)
    }
}

fn columns(e: &Expr, out: &mut Vec<Vec<String>>) {
    match e {
        Expr::Column(c) => out.push(c.iter().map(|s| s.to_string()).collect()),
        Expr::Function(f) => f.arguments().iter().for_each(|a| columns(a, out)),
        Expr::Aggregate(a) => columns(a.argument(), out),
        Expr::Struct(_) => out.push(vec!["<struct>".to_string()]),
        Expr::Value(_) => {}
    }
}

pub struct Lineage<'a> {
    pub protected: Vec<String>,
    /// paths of the protected tables: a node reading such a path is protected whatever its name
    pub protected_paths: Vec<Vec<String>>,
    memo: HashMap<*const Relation, Lin>,
    /// shapes the analysis does not classify (conservatively treated as raw)
    pub unknown: std::cell::RefCell<Vec<String>>,
    _p: std::marker::PhantomData<&'a ()>,
}

impl<'a> Lineage<'a> {
    pub fn new(protected: Vec<String>) -> Self {
        Lineage { protected, protected_paths: vec![], memo: HashMap::new(), unknown: Default::default(), _p: Default::default() }
    }
    pub fn new_with_paths(protected: Vec<String>, protected_paths: Vec<Vec<String>>) -> Self {
        Lineage { protected, protected_paths, memo: HashMap::new(), unknown: Default::default(), _p: Default::default() }
    }

    fn expr_flags(&self, e: &Expr, input: &Lin) -> (bool, bool) {
        // (raw, all referenced columns noised)
        let mut cols = vec![];
        columns(e, &mut cols);
        let mut raw = false;
        let mut unresolved = false;
        let mut all_noised = !cols.is_empty();
        for c in cols {
            match input.idx(c.last().map(|s| s.as_str()).unwrap_or("")) {
                Some(i) => {
                    raw |= input.raw[i];
                    all_noised &= input.noised[i];
                }
                None => {
                    // the expression names a column its input does not have (malformed plan, it cannot execute):
                    // no data flows through it
                    unresolved = true;
                    all_noised = false;
                }
            }
        }
        if unresolved {
            self.unknown.borrow_mut().push(format!("unresolved column in {e}"));
        }
        (raw, all_noised)
    }

    pub fn of(&mut self, r: &Relation) -> Lin {
        let key = r as *const Relation;
        if let Some(l) = self.memo.get(&key) {
            return l.clone();
        }
        let names: Vec<String> = r.schema().iter().map(|f| f.name().to_string()).collect();
        let n = names.len();
        let lin = match r {
            Relation::Table(t) => {
                let path: Vec<String> = t.path().iter().map(|s| s.to_string()).collect();
                let prot = self.protected.iter().any(|p| p == t.name()) || self.protected_paths.iter().any(|p| *p == path);
                if std::env::var("QV_DEBUG").is_ok() {
                    eprintln!("LINEAGE table {} path {:?} protected={prot} (names {:?} paths {:?})", t.name(), path, self.protected, self.protected_paths);
                }
                Lin { raw: vec![prot; n], noised: vec![false; n], supp_raw: prot, mult_raw: prot, names }
            }
            Relation::Values(_) => Lin { raw: vec![false; n], noised: vec![false; n], supp_raw: false, mult_raw: false, names },
            Relation::Map(m) => {
                let input = self.of(m.input());
                let mut raw = vec![];
                let mut noised = vec![];
                for e in m.projection() {
                    if let Some((c, _, _)) = noise_term(e) {
                        // a noise term over any input column is the sanitiser
                        let _ = c;
                        raw.push(false);
                        noised.push(true);
                    } else {
                        let (r0, nz) = self.expr_flags(e, &input);
                        if contains_random(e) && !matches!(e, Expr::Function(f) if f.arguments().is_empty()) {
                            self.unknown.borrow_mut().push(format!("random() in {e}"));
                        }
                        raw.push(r0);
                        noised.push(nz && !r0);
                    }
                }
                let (mut supp_raw, mut mult_raw) = (input.supp_raw, input.mult_raw);
                if let Some(f) = m.filter() {
                    let (fr, fn_) = self.expr_flags(f, &input);
                    if fn_ && !fr {
                        // a filter over noised quantities only: the thresholded key release. Rows and the columns kept
                        // are outputs of a randomised mechanism
                        supp_raw = false;
                        mult_raw = false;
                        raw.iter_mut().for_each(|x| *x = false);
                    } else if fr {
                        supp_raw = true;
                        mult_raw = true;
                    }
                }
                if m.limit().is_some() || m.offset().is_some() {
                    let ob_raw = m.order_by().iter().any(|o| self.expr_flags(&o.expr, &input).0);
                    if input.mult_raw || input.supp_raw || ob_raw {
                        supp_raw = true;
                        mult_raw = true;
                    }
                }
                Lin { raw, noised, supp_raw, mult_raw, names }
            }
            Relation::Reduce(rd) => {
                let input = self.of(rd.input());
                let groups: Vec<String> = rd.group_by().iter().map(|c| c.last().map(|s| s.to_string()).unwrap_or_default()).collect();
                // a grouping / aggregated column the input does not have (malformed plan): no data flows through it
                if groups.iter().any(|g| input.idx(g).is_none()) || rd.aggregate().iter().any(|a| input.idx(&a.column().last().map(|s| s.to_string()).unwrap_or_default()).is_none()) {
                    self.unknown.borrow_mut().push(format!("reduce {} names a column its input lacks", rd.name()));
                }
                let group_raw = groups.iter().any(|g| input.idx(g).map_or(false, |i| input.raw[i]));
                let mut raw = vec![];
                let mut noised = vec![];
                for a in rd.aggregate() {
                    let col = a.column().last().map(|s| s.to_string()).unwrap_or_default();
                    let i = input.idx(&col);
                    let col_raw = i.map_or(false, |i| input.raw[i]);
                    if groups.contains(&col) {
                        // any aggregate of a grouping column is determined by the group
                        raw.push(col_raw);
                        noised.push(i.map_or(false, |i| input.noised[i]));
                    } else {
                        raw.push(col_raw || input.mult_raw || input.supp_raw);
                        noised.push(false);
                    }
                }
                let supp_raw = if groups.is_empty() { false } else { input.supp_raw || group_raw };
                Lin { raw, noised, supp_raw, mult_raw: supp_raw, names }
            }
            Relation::Join(j) => {
                let (l, rr) = (self.of(j.left()), self.of(j.right()));
                let both = Lin {
                    raw: l.raw.iter().chain(rr.raw.iter()).cloned().collect(),
                    noised: l.noised.iter().chain(rr.noised.iter()).cloned().collect(),
                    supp_raw: false,
                    mult_raw: false,
                    names: l.names.iter().map(|n| format!("L.{n}")).chain(rr.names.iter().map(|n| format!("R.{n}"))).collect(),
                };
                let on_raw = |e: &Expr| -> bool {
                    let mut cols = vec![];
                    columns(e, &mut cols);
                    cols.iter().any(|c| {
                        let side = if c.first().map(|s| s.as_str()) == Some("_LEFT_") { "L" } else { "R" };
                        let name = format!("{side}.{}", c.last().cloned().unwrap_or_default());
                        both.idx(&name).map_or(false, |i| both.raw[i])
                    })
                };
                let mut raw = both.raw.clone();
                let nl = l.raw.len();
                let (supp_raw, mult_raw) = match j.operator() {
                    JoinOperator::Inner(e) => {
                        let o = on_raw(e);
                        let s = l.supp_raw || rr.supp_raw || o;
                        (s, s || l.mult_raw || rr.mult_raw)
                    }
                    JoinOperator::LeftOuter(e) => {
                        let o = on_raw(e);
                        // the preserved side keeps its rows; what the other side contributes (values, NULLs, multiplicity)
                        // depends on its own rows
                        if rr.supp_raw || o {
                            raw.iter_mut().skip(nl).for_each(|x| *x = true);
                        }
                        (l.supp_raw, l.mult_raw || rr.mult_raw || rr.supp_raw || o)
                    }
                    JoinOperator::RightOuter(e) => {
                        let o = on_raw(e);
                        if l.supp_raw || o {
                            raw.iter_mut().take(nl).for_each(|x| *x = true);
                        }
                        (rr.supp_raw, rr.mult_raw || l.mult_raw || l.supp_raw || o)
                    }
                    JoinOperator::FullOuter(e) => {
                        let o = on_raw(e);
                        let s = l.supp_raw || rr.supp_raw;
                        if o {
                            raw.iter_mut().for_each(|x| *x = true);
                        }
                        (s, s || o || l.mult_raw || rr.mult_raw)
                    }
                    JoinOperator::Cross => (l.supp_raw || rr.supp_raw, l.mult_raw || rr.mult_raw || l.supp_raw || rr.supp_raw),
                };
                Lin { raw, noised: both.noised, supp_raw, mult_raw, names }
            }
            Relation::Set(s) => {
                let (l, rr) = (self.of(s.left()), self.of(s.right()));
                let raw = (0..n).map(|i| l.raw.get(i).cloned().unwrap_or(true) || rr.raw.get(i).cloned().unwrap_or(true)).collect();
                let noised = (0..n).map(|i| l.noised.get(i).cloned().unwrap_or(false) && rr.noised.get(i).cloned().unwrap_or(false)).collect();
                Lin { raw, noised, supp_raw: l.supp_raw || rr.supp_raw, mult_raw: l.mult_raw || rr.mult_raw || l.supp_raw || rr.supp_raw, names }
            }
        };
        self.memo.insert(key, lin.clone());
        lin
    }
}
