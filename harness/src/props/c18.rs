//! C18 — compilation is total on the supported fragment: errors, never panics, aborts or hangs.
use crate::isolate::{Call, Worker};
use crate::run::*;
use crate::safe::safe;
use crate::spec::*;
use crate::sqlx::db::*;
use crate::sqlx::privacy::*;
use crate::sqlx::query::*;
use proptest::prelude::*;
use qrlew::dialect_translation::{
    bigquery::BigQueryTranslator, databricks::DatabricksTranslator, hive::HiveTranslator, mssql::MsSqlTranslator, mysql::MySqlTranslator, postgresql::PostgreSqlTranslator,
    redshiftsql::RedshiftSqlTranslator, sqlite::SQLiteTranslator, RelationWithTranslator,
};
use qrlew::hierarchy::Hierarchy;
use qrlew::relation::{field::Constraint, Field, Relation, Schema, Table, Variant as _};
use qrlew::privacy_unit_tracking::Strategy as PupStrategy;
use qrlew::sql::relation::QueryWithRelations;
use serde::{Deserialize, Serialize};
use serde_json::{json, Value as J};
use std::cell::RefCell;
use std::sync::Arc;
use std::time::Duration;

#[derive(Clone, Debug, Serialize, Deserialize)]
pub struct HostileDb {
    pub base: DbSpec,
    /// per table, per column: a hostile type of the same kind replacing the declared one
    pub overrides: Vec<Vec<Option<TypeSpec>>>,
    /// per table: declared size override
    pub sizes: Vec<Option<i64>>,
}

impl HostileDb {
    pub fn relations(&self) -> Hierarchy<Arc<Relation>> {
        self.base
            .tables
            .iter()
            .enumerate()
            .map(|(ti, t)| {
                let fields: Vec<Field> = t
                    .cols
                    .iter()
                    .enumerate()
                    .map(|(ci, c)| {
                        let dt = match self.overrides.get(ti).and_then(|o| o.get(ci)).cloned().flatten() {
                            Some(ts) => {
                                let d = ts.to_data_type();
                                if c.nullable {
                                    qrlew::data_type::DataType::optional(d)
                                } else {
                                    d
                                }
                            }
                            None => c.data_type(),
                        };
                        Field::new(c.name.clone(), dt, if c.unique { Some(Constraint::Unique) } else { None })
                    })
                    .collect();
                let size = match self.sizes.get(ti).cloned().flatten() {
                    Some(s) => qrlew::data_type::Integer::from_interval(0, s.max(0)),
                    None => qrlew::data_type::Integer::from_value(t.nrows as i64),
                };
                (vec![t.name.clone()], Arc::new(Relation::Table(Table::new(t.name.clone(), vec![t.name.clone()].into(), Schema::new(fields), size))))
            })
            .collect()
    }
}

#[derive(Clone, Debug, Serialize, Deserialize)]
pub enum Sql {
    Q(Q),
    /// a valid but unsupported construct: template index and picks for table / column names
    Unsupported(u8, u16, u16),
    /// raw SQL text (hand-written regression inputs)
    Raw(String),
}

#[derive(Clone, Debug, Serialize, Deserialize)]
pub struct Case {
    pub db: HostileDb,
    pub sql: Sql,
    pub pu: PuSpec,
    pub dp: DpSpec,
}

const UNSUPPORTED: [&str; 28] = [
    "SELECT {t}.* FROM {t}",
    "SELECT * FROM {t}, {u}",
    "SELECT {c}, COUNT(*) FROM {t} GROUP BY ALL",
    "SELECT {c}, ROW_NUMBER() OVER (ORDER BY {c}) FROM {t}",
    "SELECT {c} FROM {t} WHERE {c} IN (SELECT {c} FROM {t})",
    "SELECT {c} FROM {t} WHERE EXISTS (SELECT 1 FROM {u})",
    "SELECT (SELECT MAX({c}) FROM {t}) AS m FROM {u}",
    "SELECT frobnicate({c}) FROM {t}",
    "SELECT now() FROM {t}",
    "(SELECT {c} FROM {t} UNION SELECT {c} FROM {t}) INTERSECT SELECT {c} FROM {t}",
    "VALUES (1), (2)",
    "SELECT * FROM {t} CROSS JOIN LATERAL (SELECT 1) AS l",
    "SELECT {c} FROM {t} FETCH FIRST 2 ROWS ONLY",
    "SELECT INTERVAL '1' DAY FROM {t}",
    "SELECT ARRAY[1, 2] FROM {t}",
    "SELECT {c} FROM ({t} JOIN {u} ON 1 = 1)",
    "SELECT {c} / {c} FROM {t}",
    "SELECT {c} % {c} FROM {t}",
    "SELECT CAST('abc' AS FLOAT) FROM {t}",
    "SELECT {c} FROM {t} ORDER BY 1",
    "SELECT DISTINCT ON ({c}) {c} FROM {t}",
    "SELECT {c} FROM {t} TABLESAMPLE BERNOULLI (10)",
    "SELECT COUNT(*) FILTER (WHERE {c} > 0) FROM {t}",
    "SELECT {c}::text FROM {t} WHERE {c} BETWEEN 1 AND 2 OR {c} LIKE 'a%'",
    // CTE column alias lists: shorter than, equal to and longer than the body's select list
    "WITH w0(z1) AS (SELECT {c}, {c} AS other FROM {t}) SELECT z1, other FROM w0",
    "WITH w0(z1, z2) AS (SELECT {c}, {c} AS other FROM {t}) SELECT z2 FROM w0",
    "WITH w0(z1, z2, z3) AS (SELECT {c} FROM {t}) SELECT z1 FROM w0",
    "SELECT s.z1 FROM (SELECT {c}, {c} AS other FROM {t}) AS s(z1)",
];

fn render_sql(case: &Case) -> (String, Vec<&'static str>) {
    match &case.sql {
        Sql::Q(q) => {
            let (s, info) = render(&case.db.base, q);
            (s, info.classes)
        }
        Sql::Raw(s) => (s.clone(), vec!["raw"]),
        Sql::Unsupported(k, a, b) => {
            let tabs = &case.db.base.tables;
            let t = &tabs[(*a as usize * tabs.len()) >> 16];
            let u = &tabs[(*b as usize * tabs.len()) >> 16];
            let c = &t.cols[(*b as usize * t.cols.len()) >> 16].name;
            (UNSUPPORTED[*k as usize % UNSUPPORTED.len()].replace("{t}", &t.name).replace("{u}", &u.name).replace("{c}", c), vec!["unsupported_construct"])
        }
    }
}

fn hostile_type(kind: &ColTy) -> BoxedStrategy<Option<TypeSpec>> {
    let s: BoxedStrategy<TypeSpec> = match kind {
        ColTy::Int(..) | ColTy::IntSet(_) => int_type(),
        ColTy::Float(..) => float_type(),
        ColTy::TextSet(_) => text_type(),
        ColTy::Date(..) => date_type(),
    };
    prop_oneof![2 => Just(None), 3 => s.prop_map(Some)].boxed()
}

pub fn hostile_db_strategy() -> BoxedStrategy<HostileDb> {
    db_strategy(3, 7)
        .prop_flat_map(|base| {
            let ov: Vec<Vec<BoxedStrategy<Option<TypeSpec>>>> = base.tables.iter().map(|t| t.cols.iter().map(|c| hostile_type(&c.ty)).collect()).collect();
            let sizes = proptest::collection::vec(proptest::option::weighted(0.4, prop::sample::select(vec![0i64, 1, 1 << 40, i64::MAX])), base.tables.len()..=base.tables.len());
            (Just(base), ov, sizes)
        })
        .prop_map(|(base, overrides, sizes)| HostileDb { base, overrides, sizes })
        .boxed()
}

pub fn strategy() -> BoxedStrategy<Case> {
    (
        hostile_db_strategy(),
        prop_oneof![85 => query_strategy().prop_map(Sql::Q), 15 => (0u8..28, any::<u16>(), any::<u16>()).prop_map(|(k, a, b)| Sql::Unsupported(k, a, b))],
        pu_strategy(),
        prop_oneof![1 => dp_strategy(), 1 => dp_extreme_strategy()],
    )
        .prop_map(|(db, sql, pu, dp)| Case { db, sql, pu, dp })
        .boxed()
}

// ---------------------------------------------------------------------------------------------
// the pipeline (runs inside the worker process)

#[derive(Serialize, Deserialize, Default)]
pub struct Outcome {
    pub fails: Vec<Fail>,
    pub classes: Vec<String>,
    pub sql: String,
}

pub fn pipeline(case: &Case, mark: &dyn Fn(&str)) -> Outcome {
    let mut out = Outcome::default();
    if case.db.base.tables.iter().any(|t| t.cols.is_empty()) {
        out.classes.push("rejected".into());
        return out;
    }
    let (sql, qclasses) = render_sql(case);
    out.sql = sql.clone();
    for c in &qclasses {
        out.classes.push(format!("q:{c}"));
    }
    let mut panicked = |stage: &str, p: crate::safe::Panicked, out: &mut Outcome| {
        out.classes.push(format!("panic_at:{stage}"));
        out.fails.push(Fail::new(format!("C18|panic|{stage}|{}", p.deep_sig()), format!("stage {stage}: panic at {}: {}\nquery: {sql}", p.loc, p.msg)));
    };
    mark("relations");
    let rels = match safe(|| case.db.relations()) {
        Ok(r) => r,
        Err(_) => {
            out.classes.push("rejected".into());
            return out;
        }
    };
    mark("parse");
    let query = match safe(|| qrlew::sql::relation::parse(&sql)) {
        Ok(Ok(q)) => q,
        Ok(Err(_)) => {
            out.classes.push("stop:parse_err".into());
            return out;
        }
        Err(p) => {
            panicked("parse", p, &mut out);
            return out;
        }
    };
    mark("relation");
    let rel = match safe(|| Relation::try_from(QueryWithRelations::new(&query, &rels))) {
        Ok(Ok(r)) => r,
        Ok(Err(_)) => {
            out.classes.push("stop:relation_err".into());
            return out;
        }
        Err(p) => {
            panicked("relation", p, &mut out);
            return out;
        }
    };
    out.classes.push("reached:relation".into());
    mark("schema");
    if let Err(p) = safe(|| {
        let _ = rel.schema().to_string();
        let _ = rel.size().to_string();
        let _ = rel.to_string();
    }) {
        panicked("schema", p, &mut out);
    }
    mark("render");
    if let Err(p) = safe(|| qrlew::ast::Query::from(&rel).to_string()) {
        panicked("render", p, &mut out);
    }
    macro_rules! tr {
        ($name:expr, $t:expr) => {
            mark(concat!("render:", $name));
            if let Err(p) = safe(|| qrlew::ast::Query::from(RelationWithTranslator(&rel, $t)).to_string()) {
                panicked(concat!("render:", $name), p, &mut out);
            }
        };
    }
    tr!("postgres", PostgreSqlTranslator);
    tr!("sqlite", SQLiteTranslator);
    tr!("mysql", MySqlTranslator);
    tr!("mssql", MsSqlTranslator);
    tr!("bigquery", BigQueryTranslator);
    tr!("hive", HiveTranslator);
    tr!("databricks", DatabricksTranslator);
    tr!("redshift", RedshiftSqlTranslator);
    let Some((pu, _)) = case.pu.privacy_unit(&case.db.base) else {
        out.classes.push("no_protected_table".into());
        return out;
    };
    let synth = case.pu.synthetic_data(&case.db.base);
    let dp = case.dp.params();
    for (name, strat) in [("pup_soft", PupStrategy::Soft), ("pup_hard", PupStrategy::Hard)] {
        mark(name);
        match safe(|| rel.rewrite_as_privacy_unit_preserving(&rels, synth.clone(), pu.clone(), dp.clone(), Some(strat)).map(|r| qrlew::ast::Query::from(r.relation()).to_string())) {
            Ok(Ok(_)) => out.classes.push(format!("{name}:ok")),
            Ok(Err(_)) => out.classes.push(format!("{name}:err")),
            Err(p) => panicked(name, p, &mut out),
        }
    }
    mark("dp");
    match safe(|| rel.rewrite_with_differential_privacy(&rels, synth.clone(), pu.clone(), dp.clone())) {
        Ok(Ok(r)) => {
            out.classes.push("dp:ok".into());
            mark("dp_render");
            if let Err(p) = safe(|| {
                let _ = qrlew::ast::Query::from(r.relation()).to_string();
                let _ = r.dp_event().to_string();
            }) {
                panicked("dp_render", p, &mut out);
            }
        }
        Ok(Err(_)) => out.classes.push("dp:err".into()),
        Err(p) => panicked("dp", p, &mut out),
    }
    out.classes.push("reached:dp".into());
    out
}

/// worker entry: one JSON case per line
pub fn serve() {
    crate::isolate::limit_memory(6 << 30);
    crate::safe::capture_frames(true);
    crate::isolate::serve(|line, mark| {
        let case: Case = match serde_json::from_str(line) {
            Ok(c) => c,
            Err(e) => return json!({"fails": [], "classes": ["bad_request"], "sql": format!("{e}")}).to_string(),
        };
        serde_json::to_string(&pipeline(&case, mark)).unwrap_or_default()
    });
}

thread_local! {
    static WORKER: RefCell<Option<Worker>> = RefCell::new(None);
}

const CASE_TIMEOUT_S: u64 = 30;

pub fn check(case: &Case, st: &mut Stats) -> Vec<Fail> {
    let req = serde_json::to_string(case).unwrap_or_default();
    let call = WORKER.with(|w| {
        let mut w = w.borrow_mut();
        if w.is_none() {
            *w = Worker::spawn("C18").ok();
        }
        match w.as_mut() {
            Some(w) => w.call(&req, Duration::from_secs(CASE_TIMEOUT_S)),
            None => Call::Died { last_stage: "spawn".into(), status: "cannot spawn worker".into() },
        }
    });
    st.eval();
    match call {
        Call::Ok(resp) => {
            let out: Outcome = serde_json::from_str(&resp).unwrap_or_default();
            for c in &out.classes {
                st.class(c);
            }
            if out.classes.iter().any(|c| c == "reached:dp" || c.starts_with("stop:relation_err")) {
                st.nontrivial(hash_json(case));
            }
            st.sample(|| json!({"sql": out.sql, "classes": out.classes.iter().filter(|c| !c.starts_with("q:")).collect::<Vec<_>>()}));
            out.fails
        }
        Call::Timeout { last_stage, waited_s } => {
            st.class("timeout");
            let (sql, _) = render_sql(case);
            vec![Fail::new(format!("C18|hang|{last_stage}"), format!("no answer after {waited_s:.0} s in stage {last_stage}\nquery: {sql}"))]
        }
        Call::Died { last_stage, status } => {
            if last_stage == "spawn" {
                st.class("worker_spawn_failed");
                return vec![Fail::new("HARNESS-ABORT", status)];
            }
            st.class("worker_died");
            let (sql, _) = render_sql(case);
            vec![Fail::new(format!("C18|abort|{last_stage}"), format!("worker process died ({status}) in stage {last_stage}\nquery: {sql}"))]
        }
    }
}

pub fn run(ctx: &Ctx, findings: &Findings) -> Report {
    let mut rep = Report::new(
        "C18",
        "exploration",
        "a query from the supported grammar (85 %) or a valid-but-unsupported construct from a template list (15 %), over table schemas whose columns are replaced by hostile types of the same kind (i64::MIN/MAX, +-f64::MAX, zero-width, zero-containing ranges, 120-140 interval sets, empty sets, nullable) and declared sizes 0 / 2^40 / i64::MAX, with a generated privacy-unit definition (own column, foreign-key path, row privacy, hashed, synthetic data) and DpParameters including zero budgets and degenerate shares. The whole pipeline (parse, Relation::try_from, schema/size/display, rendering with the 8 translators, privacy-unit rewriting under both strategies, DP rewriting, rendering of the result) runs in a child process with a 6 GiB address-space cap and a 30 s budget per case; every stage must return Ok or Err. Non-trivial = the pipeline reached the DP stage, or stopped with Err after parsing; distinct by spec hash.",
    );
    rep.assumptions = vec![
        "a panic is attributed to its source file and message class (line numbers are not part of the signature)".into(),
        "a child that dies (abort, stack overflow, allocation failure) or does not answer within 30 s is a violation keyed by the stage it was in".into(),
    ];
    rep.legs.push(search(ctx, "C18", "pipeline", ctx.cases(16_000, 30), findings, strategy, check));
    rep.require_class("reached:dp", 1_000);
    rep.require_class("stop:relation_err", 30);
    rep.require_class("q:unsupported_construct", 500);
    rep.require_class("dp:ok", 300);
    rep
}

pub fn replay(leg: &str, spec: &J, st: &mut Stats) -> Result<Vec<Fail>, String> {
    let _ = leg;
    Ok(check(&decode::<Case>(spec)?, st))
}
