//! C11 — lattice operations soundly over-approximate set operations; interval sets stay well-formed.
use crate::member::{is_relational, lax, pair_class, relational_pair, strict, type_tag, witness_cause, Tri};
use crate::run::*;
use crate::safe::safe;
use crate::spec::*;
use proptest::prelude::*;
use qrlew::data_type::intervals::{Bound, Intervals};
use qrlew::data_type::value::{Value, Variant as _};
use qrlew::data_type::{DataType, DataTyped, Variant as _};
use serde::{Deserialize, Serialize};
use serde_json::{json, Value as J};

// ---------------------------------------------------------------------------------------------
// Leg 1: laws over pairs of types

#[derive(Clone, Debug, Serialize, Deserialize)]
pub struct LawSpec {
    pub a: TypeSpec,
    /// None: b is a perturbation of a (derived from picks)
    pub b: Option<TypeSpec>,
    pub swap: bool,
    pub picks: Vec<u16>,
}

fn sat_i(x: i64, d: i64) -> i64 {
    x.saturating_add(d)
}

/// A type close to `t`: pieces widened / narrowed / dropped / added, or moved to a related variant.
pub fn perturb(t: &TypeSpec, p: &mut Picks, depth: u32) -> TypeSpec {
    if depth == 0 && p.chance(1, 6) {
        // cross-variant move
        match t {
            TypeSpec::Int(v) => {
                return TypeSpec::Float(v.iter().map(|[a, b]| [*a as f64, *b as f64]).collect())
            }
            TypeSpec::Float(v) => {
                return TypeSpec::Int(
                    v.iter()
                        .map(|[a, b]| [a.floor().clamp(-9e18, 9e18) as i64, b.ceil().clamp(-9e18, 9e18) as i64])
                        .collect(),
                )
            }
            TypeSpec::Bool(v) => return TypeSpec::Int(v.iter().map(|b| [*b as i64, *b as i64]).collect()),
            TypeSpec::Date(v) => {
                return TypeSpec::DateTime(
                    v.iter()
                        .map(|[a, b]| {
                            [
                                (*a as i64 - 719_163) * 86_400,
                                (*b as i64 - 719_163) * 86_400 + if p.chance(1, 2) { 86_399 } else { 0 },
                            ]
                        })
                        .collect(),
                )
            }
            _ => {}
        }
    }
    match t {
        TypeSpec::Int(v) => {
            let mut out = vec![];
            for [a, b] in v.iter().take(140) {
                match p.idx(8) {
                    0 => {}
                    1 | 2 => out.push([sat_i(*a, -(p.idx(3) as i64)), sat_i(*b, p.idx(3) as i64)]),
                    3 => {
                        let (na, nb) = (sat_i(*a, p.idx(3) as i64), sat_i(*b, -(p.idx(3) as i64)));
                        if na <= nb {
                            out.push([na, nb])
                        }
                    }
                    _ => out.push([*a, *b]),
                }
            }
            if p.chance(1, 4) {
                let x = p.idx(41) as i64 - 20;
                out.push([x, x + p.idx(4) as i64]);
            }
            TypeSpec::Int(out)
        }
        TypeSpec::Float(v) => {
            let deltas = [0.0, 0.5, 1.0, 1e-9];
            let mut out = vec![];
            for [a, b] in v.iter().take(140) {
                match p.idx(8) {
                    0 => {}
                    1 | 2 => {
                        let d = deltas[p.idx(4)];
                        let (na, nb) = if d == 0.0 { (next_down(*a), next_up(*b)) } else { (a - d, b + d) };
                        out.push([na.max(f64::MIN), nb.min(f64::MAX)])
                    }
                    3 => {
                        let d = deltas[p.idx(4)];
                        let (na, nb) = if d == 0.0 { (next_up(*a), next_down(*b)) } else { (a + d, b - d) };
                        if na <= nb && na.is_finite() && nb.is_finite() {
                            out.push([na, nb])
                        }
                    }
                    _ => out.push([*a, *b]),
                }
            }
            if p.chance(1, 4) {
                let x = (p.idx(41) as i64 - 20) as f64 / 2.0;
                out.push([x, x + p.idx(4) as f64 / 2.0]);
            }
            TypeSpec::Float(out)
        }
        TypeSpec::Text(v) => {
            let mut out = vec![];
            for x in v {
                match p.idx(6) {
                    0 => {}
                    1 => out.push([x[0].clone(), format!("{}z", x[1])]),
                    _ => out.push(x.clone()),
                }
            }
            if p.chance(1, 4) {
                let pool = ["", "a", "b", "0", "zz"];
                let s = pool[p.idx(pool.len())].to_string();
                out.push([s.clone(), s]);
            }
            TypeSpec::Text(out)
        }
        TypeSpec::Bool(v) => {
            let mut out = v.clone();
            match p.idx(4) {
                0 => {
                    out.pop();
                }
                1 => {
                    if !out.contains(&true) {
                        out.push(true)
                    }
                }
                2 => {
                    if !out.contains(&false) {
                        out.push(false)
                    }
                }
                _ => {}
            }
            TypeSpec::Bool(out)
        }
        TypeSpec::Date(v) => TypeSpec::Date(perturb_small(v, p, |x, d| x.saturating_add(d as i32))),
        TypeSpec::Time(v) => TypeSpec::Time(perturb_small(v, p, |x, d| {
            (x as i64 + d).clamp(0, 86399) as u32
        })),
        TypeSpec::DateTime(v) => TypeSpec::DateTime(perturb_small(v, p, |x, d| x.saturating_add(d))),
        TypeSpec::Duration(v) => TypeSpec::Duration(perturb_small(v, p, |x, d| x.saturating_add(d))),
        TypeSpec::Optional(inner) => match p.idx(5) {
            0 => perturb(inner, p, depth + 1),
            _ => TypeSpec::Optional(Box::new(perturb(inner, p, depth + 1))),
        },
        TypeSpec::Struct(fs) => {
            let mut out: Vec<(String, TypeSpec)> = fs.iter().map(|(n, t)| (n.clone(), perturb(t, p, depth + 1))).collect();
            match p.idx(8) {
                0 => {
                    out.pop();
                }
                1 => out.push(("z".into(), TypeSpec::Int(vec![[0, 1]]))),
                _ => {}
            }
            TypeSpec::Struct(out)
        }
        TypeSpec::Union(fs) => {
            let mut out: Vec<(String, TypeSpec)> = fs.iter().map(|(n, t)| (n.clone(), perturb(t, p, depth + 1))).collect();
            match p.idx(8) {
                0 => {
                    out.pop();
                }
                1 => out.push(("z".into(), TypeSpec::Int(vec![[0, 1]]))),
                _ => {}
            }
            TypeSpec::Union(out)
        }
        TypeSpec::List(t, [a, b]) => {
            let na = (a - p.idx(2) as i64).max(0);
            let nb = b + p.idx(2) as i64;
            TypeSpec::List(Box::new(perturb(t, p, depth + 1)), [na, nb])
        }
        TypeSpec::Set(t, [a, b]) => {
            let na = (a - p.idx(2) as i64).max(0);
            let nb = b + p.idx(2) as i64;
            TypeSpec::Set(Box::new(perturb(t, p, depth + 1)), [na, nb])
        }
        TypeSpec::Array(t, s) => TypeSpec::Array(Box::new(perturb(t, p, depth + 1)), s.clone()),
        other => {
            if p.chance(1, 5) {
                TypeSpec::Optional(Box::new(other.clone()))
            } else {
                other.clone()
            }
        }
    }
}

fn perturb_small<T: Copy + PartialOrd>(v: &[[T; 2]], p: &mut Picks, shift: impl Fn(T, i64) -> T) -> Vec<[T; 2]> {
    let mut out = vec![];
    for [a, b] in v {
        match p.idx(6) {
            0 => {}
            1 | 2 => out.push([shift(*a, -(p.idx(3) as i64)), shift(*b, p.idx(3) as i64)]),
            3 => {
                let (na, nb) = (shift(*a, p.idx(3) as i64), shift(*b, -(p.idx(3) as i64)));
                if na <= nb {
                    out.push([na, nb])
                }
            }
            _ => out.push([*a, *b]),
        }
    }
    out
}

pub fn law_strategy() -> impl Strategy<Value = LawSpec> {
    (
        prop_oneof![65 => relational_type(), 35 => any_type(2)],
        prop_oneof![55 => Just(None), 15 => any_type(2).prop_map(Some), 30 => cell_type().prop_map(Some)],
        any::<bool>(),
        picks_strategy(48),
    )
        .prop_map(|(a, b, swap, picks)| LawSpec { a, b, swap, picks })
}

/// v (strictly in its own type) is "the same abstract value" as some w strictly in t
fn in_type_modulo_embedding(t: &DataType, v: &Value) -> bool {
    if strict(t, v) == Tri::Yes {
        return true;
    }
    if type_tag(t) == "any" {
        return true;
    }
    // the embedding of one variant into another is only meaningful for (optional) primitive values
    let prim_value = match v {
        Value::Optional(o) => o.as_ref().map_or(false, |x| !matches!(**x, Value::Struct(_) | Value::Union(_) | Value::List(_) | Value::Set(_) | Value::Array(_) | Value::Optional(_))),
        Value::Struct(_) | Value::Union(_) | Value::List(_) | Value::Set(_) | Value::Array(_) => false,
        _ => true,
    };
    if !prim_value {
        return false;
    }
    if let Ok(Ok(w)) = safe(|| v.as_data_type(t)) {
        if strict(t, &w) == Tri::Yes {
            // only accept conversions that are reversible, i.e. genuinely the same value
            if let Ok(Ok(back)) = safe(|| w.as_data_type(&v.data_type())) {
                if back == *v {
                    return true;
                }
            }
        }
    }
    false
}

fn short(t: &DataType) -> String {
    let s = t.to_string();
    if s.chars().count() > 300 {
        let h: String = s.chars().take(300).collect();
        format!("{h}…")
    } else {
        s
    }
}

pub fn check_law(spec: &LawSpec, st: &mut Stats) -> Vec<Fail> {
    let mut fails = vec![];
    let mut p = Picks::new(&spec.picks);
    let b_spec = match &spec.b {
        Some(b) => b.clone(),
        None => perturb(&spec.a, &mut p, 0),
    };
    let (sa, sb) = if spec.swap { (b_spec, spec.a.clone()) } else { (spec.a.clone(), b_spec) };
    let (a, b) = match safe(|| (sa.to_data_type(), sb.to_data_type())) {
        Ok(x) => x,
        Err(_) => {
            st.reject();
            return fails;
        }
    };
    st.eval();
    let (ta, tb) = (type_tag(&a), type_tag(&b));
    let pc = pair_class(&a, &b);
    let rel = relational_pair(&a, &b);
    if rel {
        st.class("stratum_relational");
    } else {
        st.class("stratum_general");
    }
    // key of a violation: fine-grained in the relational stratum, coarse (root-cause kind) in the general one
    let key = |law: &str, side: &str, v: &Value| -> String {
        if rel {
            format!("C11|{law}|rel|{pc}|{side}|{}", witness_cause(v))
        } else {
            let kind = if pc.contains("mixed:") {
                "mixed".to_string()
            } else if pc.contains("fields_differ") {
                "fields_differ".to_string()
            } else if pc.starts_with("nested:") {
                "nested".to_string()
            } else {
                pc.clone()
            };
            format!("C11|{law}|gen|{kind}")
        }
    };
    if spec.b.is_none() {
        st.class("pair_perturbed");
    } else {
        st.class("pair_independent");
    }
    if ta == tb {
        st.class("same_variant");
    } else {
        st.class("cross_variant");
    }
    if sa.pieces() >= 128 || sb.pieces() >= 128 {
        st.class("over_capacity_type");
    }
    // values
    let mut va: Vec<Value> = vec![];
    let mut vb: Vec<Value> = vec![];
    for _ in 0..3 {
        if let Some(v) = sa.value_in(&mut p) {
            if let Ok(v) = safe(|| v.to_value()) {
                va.push(v);
            }
        }
        if let Some(v) = sb.value_in(&mut p) {
            if let Ok(v) = safe(|| v.to_value()) {
                vb.push(v);
            }
        }
    }
    // strict premises
    let va: Vec<Value> = va.into_iter().filter(|v| strict(&a, v) == Tri::Yes).collect();
    let vb: Vec<Value> = vb.into_iter().filter(|v| strict(&b, v) == Tri::Yes).collect();

    let sub = safe(|| a.is_subset_of(&b));
    let uni = safe(|| a.super_union(&b));
    let int = safe(|| a.super_intersection(&b));
    for r in [sub.is_err(), uni.is_err(), int.is_err()] {
        if r {
            st.oracle_panic();
        }
    }
    let mut nontrivial = false;

    // law 1: subset
    if let Ok(true) = sub {
        st.class("subset_true");
        if !va.is_empty() && ta != "null" {
            nontrivial = true;
            st.class("law_subset_evaluated");
        }
        for v in &va {
            st.eval();
            if lax(&b, v) == Tri::No {
                fails.push(Fail::new(
                    key("subset", "-", v),
                    format!("A={} is_subset_of B={} but v={v} in A is not in B", short(&a), short(&b)),
                ));
            }
        }
    }
    // law 2: union
    if let Ok(Ok(u)) = &uni {
        for (side, vs) in [("left", &va), ("right", &vb)] {
            for v in vs.iter() {
                st.eval();
                st.class("law_union_evaluated");
                nontrivial = true;
                if lax(u, v) == Tri::No {
                    fails.push(Fail::new(
                        key("union", side, v),
                        format!("A={} B={} super_union={} does not contain v={v} of the {side} operand", short(&a), short(&b), short(u)),
                    ));
                }
            }
        }
    } else if let Ok(Err(_)) = &uni {
        st.class("union_err");
    }
    // law 3: intersection
    if let Ok(Ok(i)) = &int {
        for (side, vs, other) in [("left", &va, &b), ("right", &vb, &a)] {
            for v in vs.iter() {
                if in_type_modulo_embedding(other, v) {
                    st.eval();
                    st.class("law_intersection_evaluated");
                    nontrivial = true;
                    if lax(i, v) == Tri::No {
                        fails.push(Fail::new(
                            key("intersection", side, v),
                            format!("A={} B={}: v={v} is in both but not in super_intersection={}", short(&a), short(&b), short(i)),
                        ));
                    }
                }
            }
        }
    } else if let Ok(Err(_)) = &int {
        st.class("intersection_err");
    }
    // law 4: own type
    for (v, src) in va.iter().map(|v| (v, &a)).chain(vb.iter().map(|v| (v, &b))) {
        st.eval();
        match safe(|| v.data_type()) {
            Ok(t) => {
                if strict(&t, v) == Tri::No {
                    fails.push(Fail::new(
                        format!("C11|own_type|{}|{}", if is_relational(src) { "rel" } else { "gen" }, crate::member::value_tag(v)),
                        format!("v={v} is not contained in its own type {t}"),
                    ));
                }
            }
            Err(_) => st.oracle_panic(),
        }
    }
    if nontrivial {
        st.nontrivial(hash_json(spec));
    }
    st.sample(|| json!({"A": a.to_string(), "B": b.to_string(), "values_of_A": va.iter().map(|v| v.to_string()).collect::<Vec<_>>(), "is_subset": format!("{:?}", sub.as_ref().ok())}));
    fails
}

// ---------------------------------------------------------------------------------------------
// Leg 2: histories of interval-set operations against a bitset model

const DOM: i64 = 420;

#[derive(Clone, Debug, Serialize, Deserialize)]
pub enum Op {
    UnionInterval(i64, i64),
    IntersectionInterval(i64, i64),
    UnionValue(i64),
    Union(Vec<[i64; 2]>),
    Intersection(Vec<[i64; 2]>),
}

#[derive(Clone, Debug, Serialize, Deserialize)]
pub struct HistorySpec {
    /// number of spread-out single values unioned first (to approach / cross the capacity)
    pub growth: u16,
    pub stride: u16,
    pub ops: Vec<Op>,
}

fn point() -> impl Strategy<Value = i64> {
    0i64..DOM
}

fn op_strategy() -> impl Strategy<Value = Op> {
    let iv = (point(), 0i64..40).prop_map(|(a, w)| [a, (a + w).min(DOM - 1)]).boxed();
    prop_oneof![
        30 => (point(), prop_oneof![3 => 0i64..6, 1 => 0i64..200]).prop_map(|(a, w)| Op::UnionInterval(a, (a + w).min(DOM - 1))),
        25 => point().prop_map(Op::UnionValue),
        20 => (point(), prop_oneof![1 => 0i64..30, 3 => 100i64..DOM]).prop_map(|(a, w)| Op::IntersectionInterval(a, (a + w).min(DOM - 1))),
        12 => proptest::collection::vec(iv.clone(), 0..6).prop_map(Op::Union),
        13 => proptest::collection::vec((point(), 20i64..300).prop_map(|(a, w)| [a, (a + w).min(DOM - 1)]), 0..4).prop_map(Op::Intersection),
    ]
}

pub fn history_strategy() -> impl Strategy<Value = HistorySpec> {
    (
        prop_oneof![50 => Just(0u16), 15 => 1u16..100, 35 => 110u16..200],
        prop_oneof![Just(2u16), Just(3u16), Just(7u16)],
        proptest::collection::vec(op_strategy(), 0..60),
    )
        .prop_map(|(growth, stride, ops)| HistorySpec { growth, stride, ops })
}

struct HistOutcome {
    crossed_capacity: bool,
    merged3: bool,
    steps: u64,
}

fn well_formed<B: Bound>(s: &Intervals<B>) -> Result<(), String> {
    let v: &[[B; 2]] = s;
    if v.len() >= 128 {
        return Err(format!("len {} >= capacity 128", v.len()));
    }
    for (k, [a, b]) in v.iter().enumerate() {
        if !(a <= b) {
            return Err(format!("interval {k} has min > max: [{a}, {b}]"));
        }
        if k > 0 && !(v[k - 1][1] < *a) {
            return Err(format!("intervals {} and {k} not sorted/disjoint: ..{}] [{}..", k - 1, v[k - 1][1], a));
        }
    }
    Ok(())
}

fn apply_hist<B: Bound>(spec: &HistorySpec, name: &str, map: &dyn Fn(i64) -> B) -> Result<HistOutcome, Fail> {
    let mut model = vec![false; DOM as usize];
    let mut set: Intervals<B> = Intervals::empty();
    let mut out = HistOutcome { crossed_capacity: false, merged3: false, steps: 0 };
    let mut ops: Vec<Op> = vec![];
    for k in 0..spec.growth as i64 {
        ops.push(Op::UnionValue((k * spec.stride as i64 + (k / 140)) % DOM));
    }
    ops.extend(spec.ops.iter().cloned());
    let from_list = |l: &Vec<[i64; 2]>| -> Intervals<B> {
        l.iter().fold(Intervals::empty(), |acc, [a, b]| acc.union_interval(map(*a.min(b)), map(*a.max(b))))
    };
    for (step, op) in ops.iter().enumerate() {
        let before_len = set.len();
        let set_in = set.clone();
        let res = safe(|| match op {
            Op::UnionInterval(a, b) => set_in.union_interval(map(*a.min(b)), map(*a.max(b))),
            Op::IntersectionInterval(a, b) => set_in.intersection_interval(map(*a.min(b)), map(*a.max(b))),
            Op::UnionValue(a) => set_in.union_value(map(*a)),
            Op::Union(l) => set_in.union(from_list(l)),
            Op::Intersection(l) => set_in.intersection(from_list(l)),
        });
        set = match res {
            Ok(s) => s,
            Err(pn) => {
                return Err(Fail::new(
                    format!("C11|history|{name}|panic|{}", pn.file()),
                    format!("step {step} {op:?} panicked at {}: {}", pn.loc, pn.msg),
                ))
            }
        };
        // model
        match op {
            Op::UnionInterval(a, b) => {
                for x in *a.min(b)..=*a.max(b) {
                    model[x as usize] = true;
                }
            }
            Op::UnionValue(a) => model[*a as usize] = true,
            Op::IntersectionInterval(a, b) => {
                for x in 0..DOM {
                    if x < *a.min(b) || x > *a.max(b) {
                        model[x as usize] = false;
                    }
                }
            }
            Op::Union(l) => {
                for [a, b] in l {
                    for x in *a.min(b)..=*a.max(b) {
                        model[x as usize] = true;
                    }
                }
            }
            Op::Intersection(l) => {
                for x in 0..DOM {
                    if !l.iter().any(|[a, b]| x >= *a.min(b) && x <= *a.max(b)) {
                        model[x as usize] = false;
                    }
                }
            }
        }
        out.steps += 1;
        if before_len >= 100 && set.len() <= 2 && matches!(op, Op::UnionInterval(..) | Op::UnionValue(_) | Op::Union(_)) {
            out.crossed_capacity = true;
        }
        if matches!(op, Op::UnionInterval(..)) && before_len >= set.len() + 2 {
            out.merged3 = true;
        }
        if let Err(e) = well_formed(&set) {
            return Err(Fail::new(
                format!("C11|history|{name}|malformed"),
                format!("after step {step} {op:?}: {e}; set={set}"),
            ));
        }
        for x in 0..DOM {
            if model[x as usize] {
                let bx = map(x);
                let c = safe(|| set.contains(&bx));
                if let Ok(false) = c {
                    return Err(Fail::new(
                        format!("C11|history|{name}|lost_point"),
                        format!("after step {step} {op:?}: point {x} (as {bx}) is in the exact set but not in {set}"),
                    ));
                }
                // also direct structural check (contains itself goes through intersection)
                let v: &[[B; 2]] = &set;
                if !v.iter().any(|[a, b]| *a <= bx && bx <= *b) {
                    return Err(Fail::new(
                        format!("C11|history|{name}|lost_point"),
                        format!("after step {step} {op:?}: point {x} (as {bx}) is in the exact set but in no interval of {set}"),
                    ));
                }
            }
        }
    }
    Ok(out)
}

pub fn check_history(spec: &HistorySpec, st: &mut Stats) -> Vec<Fail> {
    let mut fails = vec![];
    let runs: Vec<(&str, Result<HistOutcome, Fail>)> = vec![
        ("i64", apply_hist::<i64>(spec, "i64", &|x| x - 7)),
        ("f64", apply_hist::<f64>(spec, "f64", &|x| x as f64 / 4.0 - 3.0)),
        ("str", apply_hist::<String>(spec, "str", &|x| format!("k{:04}", x))),
        ("date", apply_hist::<chrono::NaiveDate>(spec, "date", &|x| date_of(730_000 + x as i32))),
    ];
    let mut nt = false;
    for (_, r) in runs {
        match r {
            Ok(o) => {
                st.evals(o.steps);
                if o.crossed_capacity {
                    st.class("history_crossed_capacity");
                }
                if o.merged3 {
                    st.class("history_merged_3plus");
                }
                if o.crossed_capacity || o.merged3 {
                    nt = true;
                }
            }
            Err(f) => fails.push(f),
        }
    }
    if nt {
        st.nontrivial(hash_json(spec));
    }
    st.sample(|| json!({"history": {"growth": spec.growth, "stride": spec.stride, "ops": spec.ops.iter().take(6).collect::<Vec<_>>(), "n_ops": spec.ops.len()}}));
    fails
}

// ---------------------------------------------------------------------------------------------

pub fn run(ctx: &Ctx, findings: &Findings) -> Report {
    let mut rep = Report::new(
        "C11",
        "exploration",
        "laws: pairs (A,B) of generated data types (B independent or a perturbation of A; all variants, composites to depth 2, 120-140 piece sets) with up to 3 values drawn from each; non-trivial = at least one law had its premise satisfied under the strict reading (is_subset_of true with a value, union with a value, intersection with a common value); distinct by spec hash. histories: <=260 interval-set operations mirrored on a bitset model for i64/f64/String/NaiveDate; non-trivial = history crossed the 128-interval capacity or merged >=3 intervals in one union.",
    );
    rep.assumptions = vec![
        "membership: premise strict (same variant tag + contains), conclusion lax (strict, or library value conversion, or harness numeric/temporal embedding)".into(),
        "a panic inside a library call made by the oracle makes that clause unknown (counted in oracle_panics)".into(),
        "one-directional: only 'model point => contained' is asserted, supersets are allowed".into(),
    ];
    rep.legs.push(search(ctx, "C11", "laws", ctx.cases(160_000, 50), findings, law_strategy, check_law));
    rep.legs.push(search(ctx, "C11", "histories", ctx.cases(12_000, 50), findings, history_strategy, check_history));
    rep.require_class("law_subset_evaluated", 200);
    rep.require_class("law_intersection_evaluated", 200);
    rep.require_class("history_crossed_capacity", 20);
    rep.require_class("history_merged_3plus", 20);
    rep.require_class("cross_variant", 200);
    rep
}

pub fn replay(leg: &str, spec: &J, st: &mut Stats) -> Result<Vec<Fail>, String> {
    match leg {
        "laws" => Ok(check_law(&decode::<LawSpec>(spec)?, st)),
        "histories" => Ok(check_history(&decode::<HistorySpec>(spec)?, st)),
        _ => Err(format!("unknown leg {leg}")),
    }
}
