//! C17 — dialect translation emits valid target-dialect SQL with the same meaning.
use crate::props::c03::prepare;
use crate::props::dp::*;
use crate::props::sqlprops::{compile, feature, with_db, Compiled, SqlCase};
use crate::run::*;
use crate::safe::safe;
use crate::sqlx::db::*;
use crate::sqlx::exec::*;
use crate::sqlx::privacy::*;
use crate::sqlx::query::render;
use proptest::prelude::*;
use qrlew::dialect::{BigQueryDialect, DatabricksDialect, Dialect, HiveDialect, MsSqlDialect, MySqlDialect, PostgreSqlDialect, RedshiftSqlDialect, SQLiteDialect};
use qrlew::dialect_translation::{
    bigquery::BigQueryTranslator, databricks::DatabricksTranslator, hive::HiveTranslator, mssql::MsSqlTranslator, mysql::MySqlTranslator, postgresql::PostgreSqlTranslator,
    redshiftsql::RedshiftSqlTranslator, sqlite::SQLiteTranslator, RelationWithTranslator,
};
use qrlew::hierarchy::Hierarchy;
use qrlew::data_type::DataTyped as _;
use qrlew::relation::{Relation, Variant as _};
use qrlew::sql::relation::QueryWithRelations;
use qrlew::tokenizer::{Token, Tokenizer};
use serde::{Deserialize, Serialize};
use serde_json::{json, Value as J};
use std::sync::Arc;

#[derive(Clone, Debug, Serialize, Deserialize)]
pub enum Case {
    Sql(SqlCase),
    Dp { schema: DpSchema, q: DpQuery, dp: DpSpec },
    /// SELECT <col> AS "<hostile name>" FROM t
    Ident { db: DbSpec, name: u8, second: u8 },
}

pub const HOSTILE: [&str; 16] = ["select", "from", "group", "order", "a b", "x-y", "Mixed", "UPPER", "1abc", "tab.le", "q'uote", "dq\"uote", "back`tick", "br[ack]et", "semi;colon", "ünï"];

pub fn strategy() -> BoxedStrategy<Case> {
    prop_oneof![
        60 => crate::props::sqlprops::case_strategy().prop_map(Case::Sql),
        20 => (schema_strategy(3, 4), query_strategy(vec![Group::None, Group::Public, Group::Private, Group::Both], true, true), dp_strategy()).prop_map(|(schema, q, dp)| Case::Dp { schema, q, dp }),
        20 => (db_strategy(1, 4), 0u8..16, 0u8..16).prop_map(|(db, name, second)| Case::Ident { db, name, second }),
    ]
    .boxed()
}

/// root-cause class of an error message: digits and quoted names removed, first 60 characters
fn err_cause(e: &str) -> String {
    let mut out = String::new();
    let mut quote: Option<char> = None;
    for c in e.chars() {
        match quote {
            Some(q) => {
                if c == q {
                    quote = None;
                }
            }
            None => {
                if c == '"' || c == '`' {
                    quote = Some(c);
                    out.push('N');
                } else if c.is_ascii_digit() {
                    if !out.ends_with('#') {
                        out.push('#');
                    }
                } else if c == '\n' || c == '|' {
                    out.push(' ');
                } else {
                    out.push(c);
                }
            }
        }
    }
    // generated names
    let out = out.split_whitespace().map(|w| if w.starts_with("field_") || w.starts_with("map_") || w.starts_with("join_") || w.starts_with("set_") || w.starts_with("reduce_") { "N" } else { w }).collect::<Vec<_>>().join(" ");
    if let Some(i) = out.find("no such column") {
        return out[..i + "no such column".len()].to_string();
    }
    out.chars().take(70).collect()
}

struct Translated {
    text: String,
}

/// what one dialect did with one relation
struct DialectOutcome {
    fails: Vec<Fail>,
}

/// printed type; integer sets are normalised (adjacent values merged into ranges) so that int[2 4] and int{2, 3, 4}
/// compare equal
fn norm_type(t: &qrlew::data_type::DataType) -> String {
    use qrlew::data_type::DataType as T;
    match t {
        T::Integer(i) => {
            let mut v: Vec<(i64, i64)> = i.iter().map(|[a, b]| (*a, *b)).collect();
            v.sort();
            let mut m: Vec<(i64, i64)> = vec![];
            for (a, b) in v {
                match m.last_mut() {
                    Some(l) if a <= l.1.saturating_add(1) => l.1 = l.1.max(b),
                    _ => m.push((a, b)),
                }
            }
            format!("int{}", m.iter().map(|(a, b)| if a == b { format!("{{{a}}}") } else { format!("[{a} {b}]") }).collect::<Vec<_>>().join(""))
        }
        T::Optional(o) => format!("option({})", norm_type(o.data_type())),
        _ => format!("{t}"),
    }
}

fn schema_sig(r: &Relation) -> Vec<(String, String)> {
    r.schema().iter().map(|f| (f.name().to_string(), norm_type(&f.data_type()))).collect()
}

fn redshift_digit_identifier(text: &str) -> bool {
    let b: Vec<char> = text.chars().collect();
    (0..b.len().saturating_sub(1)).any(|i| b[i] == '"' && (i == 0 || !b[i - 1].is_alphanumeric()) && !(b[i + 1].is_alphabetic() || b[i + 1] == '_' || b[i + 1] == '"'))
}

fn type_kind(s: &str) -> String {
    // the variant of a printed data type: "option(int[0 5])" -> "option(int)"
    let mut out = String::new();
    let mut depth = 0;
    for c in s.chars() {
        match c {
            '[' | '{' => depth += 1,
            ']' | '}' => depth -= 1,
            _ if depth == 0 => out.push(c),
            _ => {}
        }
    }
    out
}

#[allow(clippy::too_many_arguments)]
fn one_dialect<D: Dialect, M: Fn() -> D, R: FnOnce(&qrlew::ast::Query) -> Option<Result<Relation, String>>>(
    name: &'static str,
    text: Result<String, crate::safe::Panicked>,
    mk: M,
    read_back: R,
    rel: &Relation,
    feat: &str,
    ctx: &str,
    st: &mut Stats,
) -> DialectOutcome {
    let mut fails = vec![];
    let text = match text {
        Ok(t) => Translated { text: t },
        Err(_) => {
            // totality is C18's subject
            st.class(&format!("{name}:translation_panicked"));
            return DialectOutcome { fails };
        }
    };
    st.class(&format!("{name}:translated"));
    // (a) the dialect's parser accepts the text
    let parsed = safe(|| qrlew::sql::relation::parse_with_dialect(&text.text, mk()));
    let parsed = match parsed {
        Ok(Ok(q)) => q,
        Ok(Err(e)) => {
            let e = e.to_string();
            if name == "redshift" && redshift_digit_identifier(&text.text) {
                // sqlparser's Redshift dialect only takes "..." for an identifier when a letter or underscore follows
                // the quote (its heuristic for JSON paths): a limitation of the stand-in parser, not of the emitted text
                st.class("redshift:parser_heuristic_excluded");
                return DialectOutcome { fails };
            }
            fails.push(Fail::new(format!("C17|{name}|rejected_by_dialect_parser|{}", err_cause(&e)), format!("{name} parser: {e}\nemitted: {}\n{ctx} ({feat})", text.text)));
            return DialectOutcome { fails };
        }
        Err(_) => {
            st.class(&format!("{name}:parser_panicked"));
            return DialectOutcome { fails };
        }
    };
    // every engine rejects a WITH clause that defines a name twice
    if let Some(w) = &parsed.with {
        let defs: Vec<(String, String)> = w.cte_tables.iter().map(|c| (c.alias.name.value.clone(), c.query.to_string())).collect();
        for (i, (n, q)) in defs.iter().enumerate() {
            if let Some((_, q2)) = defs.iter().skip(i + 1).find(|(n2, _)| n2 == n) {
                // the same sub-relation emitted twice, or two different relations that were given the same name
                let kind = if q == q2 { "same_definition_twice" } else { "two_relations_share_a_generated_name" };
                fails.push(Fail::new(format!("C17|{name}|with_name_defined_twice|{kind}"), format!("WITH name {n} is defined twice\nemitted: {}\n{ctx}", text.text)));
                return DialectOutcome { fails };
            }
        }
    }
    // (c) identifier quoting uses the dialect's own quote characters
    let dialect = mk();
    if let Ok(tokens) = Tokenizer::new(&dialect, &text.text).tokenize() {
        for t in &tokens {
            match t {
                Token::Word(w) => {
                    if let Some(q) = w.quote_style {
                        if !dialect.is_delimited_identifier_start(q) {
                            fails.push(Fail::new(format!("C17|{name}|identifier_quote_not_of_dialect"), format!("identifier {} quoted with {q}\nemitted: {}\n{ctx}", w.value, text.text)));
                            return DialectOutcome { fails };
                        }
                    }
                }
                Token::DoubleQuotedString(s) if !dialect.is_delimited_identifier_start('"') => {
                    // string literals are emitted with single quotes: a double-quoted string is an identifier that the
                    // dialect reads as text
                    fails.push(Fail::new(format!("C17|{name}|identifier_read_as_string_literal"), format!("\"{s}\" is a string literal in {name}\nemitted: {}\n{ctx}", text.text)));
                    return DialectOutcome { fails };
                }
                _ => {}
            }
        }
    }
    // (b) reading back gives the same names, order and types
    match read_back(&parsed) {
        None => {}
        Some(Err(e)) => {
            fails.push(Fail::new(format!("C17|{name}|read_back_fails|{}", err_cause(&e)), format!("reading the emitted text back with the {name} translator: {e}\nemitted: {}\n{ctx} ({feat})", text.text)));
        }
        Some(Ok(back)) => {
            st.class(&format!("{name}:read_back"));
            let (a, b) = (schema_sig(rel), schema_sig(&back));
            if a.len() != b.len() {
                fails.push(Fail::new(format!("C17|{name}|read_back_column_count"), format!("{} columns, read back {}\nemitted: {}\n{ctx}", a.len(), b.len(), text.text)));
            } else if let Some(i) = (0..a.len()).find(|i| a[*i].0 != b[*i].0) {
                fails.push(Fail::new(format!("C17|{name}|read_back_column_name|{}", if feat.starts_with("hostile") { feat } else { "ordinary" }), format!("column {i}: {:?}, read back {:?}\nemitted: {}\n{ctx}", a[i].0, b[i].0, text.text)));
            } else if let Some(i) = (0..a.len()).find(|i| a[*i].1 != b[*i].1) {
                // int / float / empty / null flips belong to the recorded non-determinism of numeric range propagation
                let numericish = |k: &str| {
                    let core = k.replace("option(", "").replace(')', "").replace('∪', "");
                    ["int", "float", "∅", "null", "union"].contains(&core.as_str())
                };
                let kind = if type_kind(&a[i].1) == type_kind(&b[i].1) {
                    "range"
                } else if numericish(&type_kind(&a[i].1)) && numericish(&type_kind(&b[i].1)) {
                    "numeric"
                } else {
                    "variant"
                };
                fails.push(Fail::new(
                    format!("C17|{name}|read_back_type_{kind}|{}->{}", type_kind(&a[i].1), type_kind(&b[i].1)),
                    format!("column {} has type {}, read back {}\nemitted: {}\n{ctx}", a[i].0, a[i].1, b[i].1, text.text),
                ));
            } else {
                st.class(&format!("{name}:schema_equal"));
            }
        }
    }
    DialectOutcome { fails }
}

pub fn check(case: &Case, st: &mut Stats) -> Vec<Fail> {
    let mut fails = vec![];
    st.eval();
    // ---- the relation
    let (rel, rels, db, sql, feat, rows): (Relation, Hierarchy<Arc<Relation>>, DbSpec, String, String, Option<Vec<Vec<Vec<Cell>>>>) = match case {
        Case::Sql(c) => {
            if c.db.tables.iter().any(|t| t.cols.is_empty()) {
                st.reject();
                return fails;
            }
            let (sql, info) = render(&c.db, &c.q);
            let Compiled::Ok(rel) = compile(&sql, &c.db) else {
                st.class("not_compiled");
                return fails;
            };
            st.class("source:grammar");
            (rel, c.db.relations(), c.db.clone(), sql, feature(&info.classes), None)
        }
        Case::Dp { schema, q, dp } => {
            let Some(p) = prepare(schema, q, dp, st) else { return fails };
            if p.rw.dp_event().is_no_op() {
                st.class("rewritten_without_dp");
            }
            st.class("source:dp_rewriting");
            let db = schema.db();
            (p.rw.relation().clone(), db.relations(), db, p.sql.clone(), "dp_rewriting".to_string(), None)
        }
        Case::Ident { db, name, second } => {
            if db.tables.is_empty() || db.tables[0].cols.is_empty() {
                st.reject();
                return fails;
            }
            let t = &db.tables[0];
            let (n1, n2) = (HOSTILE[*name as usize % 16], HOSTILE[*second as usize % 16]);
            let q = |s: &str| format!("\"{}\"", s.replace('"', "\"\""));
            let c0 = &t.cols[0].name;
            let sql = if n1 == n2 { format!("SELECT {c0} AS {} FROM {}", q(n1), t.name) } else { format!("SELECT {c0} AS {}, {c0} AS {} FROM {}", q(n1), q(n2), t.name) };
            let Compiled::Ok(rel) = compile(&sql, db) else {
                st.class("hostile_name_not_compiled");
                return fails;
            };
            // the compiled relation carries the hostile names
            let names: Vec<String> = rel.schema().iter().map(|f| f.name().to_string()).collect();
            if names[0] != n1 {
                st.class("hostile_name_changed_by_compilation");
                return fails;
            }
            st.class("source:hostile_identifiers");
            (rel, db.relations(), db.clone(), sql, format!("hostile_identifier:{}", n1.chars().map(|c| if c.is_alphanumeric() { 'a' } else { c }).collect::<String>()), None)
        }
    };
    let _ = rows;
    let ctx = format!("source query: {sql}");
    macro_rules! dialect {
        ($name:expr, $tr:expr, $dl:expr, readable) => {{
            let text = safe(|| qrlew::ast::Query::from(RelationWithTranslator(&rel, $tr)).to_string());
            let o = one_dialect(
                $name,
                text,
                || $dl,
                |parsed| Some(match safe(|| Relation::try_from((QueryWithRelations::new(parsed, &rels), $tr)).map_err(|e| e.to_string())) {
                    Ok(r) => r,
                    Err(p) => Err(format!("panic {}", p.file_line())),
                }),
                &rel,
                &feat,
                &ctx,
                st,
            );
            fails.extend(o.fails);
        }};
        ($name:expr, $tr:expr, $dl:expr, write_only) => {{
            let text = safe(|| qrlew::ast::Query::from(RelationWithTranslator(&rel, $tr)).to_string());
            let o = one_dialect($name, text, || $dl, |_| None, &rel, &feat, &ctx, st);
            fails.extend(o.fails);
        }};
    }
    dialect!("postgresql", PostgreSqlTranslator, PostgreSqlDialect {}, readable);
    dialect!("mysql", MySqlTranslator, MySqlDialect {}, readable);
    dialect!("mssql", MsSqlTranslator, MsSqlDialect {}, readable);
    dialect!("bigquery", BigQueryTranslator, BigQueryDialect {}, readable);
    dialect!("hive", HiveTranslator, HiveDialect {}, readable);
    dialect!("databricks", DatabricksTranslator, DatabricksDialect {}, readable);
    dialect!("redshift", RedshiftSqlTranslator, RedshiftSqlDialect {}, readable);
    dialect!("sqlite", SQLiteTranslator, SQLiteDialect {}, write_only);
    // ---- the one dialect with an offline engine: SQLite text is executed as emitted and compared with the execution
    // of the PostgreSQL text through the compatibility layer
    let lite = safe(|| qrlew::ast::Query::from(RelationWithTranslator(&rel, SQLiteTranslator)).to_string());
    let pg = safe(|| qrlew::ast::Query::from(RelationWithTranslator(&rel, PostgreSqlTranslator)).to_string());
    if let (Ok(lite), Ok(pg)) = (lite, pg) {
        let res = with_db(|d| {
            d.set_rng(RngMode::Zero);
            d.load(&db, None).ok()?;
            let reference = if matches!(case, Case::Dp { .. }) { d.query(&pg) } else { d.query(&sql) };
            Some((reference, d.query_raw(&lite)))
        });
        if let Some((Ok(a), b)) = res {
            st.class("sqlite:reference_executed");
            match b {
                Err(e) => {
                    let values = if e.contains("syntax error") && lite.contains("(VALUES") { "|values_alias" } else { "" };
                    fails.push(Fail::new(format!("C17|sqlite|rejected_by_engine|{}{values}", err_cause(&e)), format!("SQLite: {e}\nemitted: {lite}\n{ctx} ({feat})")));
                }
                Ok(b) => {
                    st.class("sqlite:executed");
                    let limited = lite.contains(" LIMIT ") || lite.contains(" OFFSET ");
                    let rel_names: Vec<String> = rel.schema().iter().map(|f| f.name().to_string()).collect();
                    if rel_names != b.names {
                        fails.push(Fail::new(format!("C17|sqlite|result_column_names|{}", if feat.starts_with("hostile") { &feat } else { "ordinary" }), format!("the relation's columns are {:?}, the engine reports {:?}\nemitted: {lite}\n{ctx}", rel_names, b.names)));
                    } else if a.rows.len() != b.rows.len() || (!limited && !same_multiset(&a.rows, &b.rows, 1e-9)) {
                        fails.push(Fail::new(format!("C17|sqlite|results_differ|{feat}"), format!("reference gives {}\nSQLite text gives {}\nemitted: {lite}\n{ctx}", show_rows(&a.rows, 6), show_rows(&b.rows, 6))));
                    } else {
                        st.class("sqlite:results_equal");
                        if !a.rows.is_empty() {
                            st.nontrivial(hash_json(case));
                        }
                    }
                }
            }
        }
    }
    st.sample(|| json!({"sql": sql, "feature": feat}));
    fails
}

pub fn run(ctx: &Ctx, findings: &Findings) -> Report {
    let mut rep = Report::new(
        "C17",
        "exploration",
        "relations compiled from the general query grammar (60 %), DP-rewritten plans of aggregation queries (20 %) and projections whose output names come from a hostile identifier pool (reserved words, spaces, punctuation, every quote character, non-ASCII; 20 %) x the eight translators. Per dialect: the emitted text must parse with that dialect's parser; quoted identifiers must use a quote character of the dialect and no identifier may come out as a double-quoted string literal; for the seven readable dialects reading the text back must give the same column names, order and data types; the SQLite text is executed as emitted and compared with the execution of the PostgreSQL text. Non-trivial = the SQLite and PostgreSQL texts executed to equal non-empty results; distinct by spec hash.",
    );
    rep.assumptions = vec![
        "acceptance by sqlparser's dialect stands in for acceptance by the real engine (only SQLite has an offline engine)".into(),
        "the PostgreSQL text is executed through the harness' compatibility layer (UDFs, VALUES alias patch); the SQLite text is executed unpatched".into(),
    ];
    rep.legs.push(search(ctx, "C17", "dialects", ctx.cases(4_000, 25), findings, strategy, check));
    rep.require_class("postgresql:read_back", 1_500);
    rep.require_class("mssql:read_back", 1_000);
    rep.require_class("bigquery:read_back", 1_000);
    rep.require_class("sqlite:executed", 1_000);
    rep.require_class("source:hostile_identifiers", 300);
    rep.require_class("source:dp_rewriting", 300);
    rep
}

pub fn replay(leg: &str, spec: &J, st: &mut Stats) -> Result<Vec<Fail>, String> {
    let _ = leg;
    Ok(check(&decode::<Case>(spec)?, st))
}
