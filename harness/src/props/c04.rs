//! C04 — grouping keys are released only if public or above the tau threshold.
//! Static part: the threshold literal of the plan is at least the tau required by the (epsilon, delta) share reserved
//! for key release. Dynamic part: the rewritten query is executed with a controlled random source; every released
//! private key must be explainable by units that each contribute to at most Cu keys (a b-matching between units and
//! released keys must exist in which every released key receives enough units to pass the threshold under the drawn
//! noise); public key columns only show declared values.
use crate::ir;
use crate::props::c01::dp_small_strategy;
use crate::props::c03::{classical_multiplier, phi_inv, prepare};
use crate::props::dp::*;
use crate::props::sqlprops::{render_relation, with_db};
use crate::run::*;
use crate::sqlx::db::*;
use crate::sqlx::exec::*;
use crate::sqlx::privacy::*;
use proptest::prelude::*;
use serde::{Deserialize, Serialize};
use serde_json::{json, Value as J};
use std::collections::{BTreeMap, BTreeSet};

#[derive(Clone, Debug, Serialize, Deserialize)]
pub struct Case {
    pub schema: DpSchema,
    pub q: DpQuery,
    pub dp: DpSpec,
    /// private keys are folded onto this many values so that units share keys
    pub key_modulus: u8,
    /// 0: noise off (constant draws, ties in the contribution ranking), 1: distinct draws with negligible noise,
    /// 2: a constant draw u
    pub rng: u8,
    pub u: u16,
}

pub fn strategy() -> BoxedStrategy<Case> {
    (
        schema_strategy(8, 20),
        query_strategy(vec![Group::Private, Group::Private, Group::Both, Group::Public], false, false),
        dp_small_strategy(),
        prop::sample::select(vec![2.0, 5.0, 20.0, 100.0, 1000.0, 2.0, 20.0, 1e-300]),
        prop::sample::select(vec![1e-6, 1e-3, 0.1, 1e-6, 1e-3, 0.1, 1e-12, 1e-15, 1e-18, 1e-21, 0.0]),
        1u8..7,
        0u8..3,
        any::<u16>(),
        prop::sample::select(vec![0u64, 0, 0, 0, 0, 0, 0, 1_000, 1_000_000, u64::MAX]),
    )
        .prop_map(|(mut schema, mut q, mut dp, eps, delta, key_modulus, rng, u, huge_groups)| {
            dp.epsilon = eps;
            dp.delta = delta;
            // "cap disabled" configurations
            if huge_groups > 0 {
                dp.max_groups = huge_groups;
            }
            // units are identified by data and every order has an owner
            schema.dangling = false;
            if schema.pu_variant % 4 == 2 {
                schema.pu_variant = 0;
            }
            if q.from == From_::OrdersFullJoinUsersOnKind {
                q.from = From_::Orders;
            }
            Case { schema, q, dp, key_modulus, rng, u }
        })
        .boxed()
}

/// tau required by (epsilon, delta): 1 + sigma * Phi^-1((1-delta)^(1/Cu)), sigma calibrated to sensitivity sqrt(Cu)
pub fn tau_required(eps: f64, delta: f64, cu: f64) -> f64 {
    let sigma = classical_multiplier(eps, delta) * cu.sqrt();
    // upper-tail probability q = 1 - (1-delta)^(1/Cu), computed without cancellation; Phi^-1(1-q) = -Phi^-1(q)
    let q = -((-delta).ln_1p() / cu).exp_m1();
    if !(q > 0.0) {
        return f64::INFINITY;
    }
    1.0 - sigma * phi_inv(q)
}

fn unit_expr(from: From_) -> &'static str {
    match from {
        From_::Orders => "uid",
        From_::UsersLeftJoinOrders | From_::Users => "users.id",
        _ => "orders.uid",
    }
}

/// maximum b-matching: can every key receive `demand` distinct units when every unit serves at most `cap` keys?
fn feasible(pairs: &BTreeSet<(String, String)>, keys: &[String], demand: usize, cap: usize) -> bool {
    if demand == 0 {
        return true;
    }
    let units: Vec<&String> = pairs.iter().map(|p| &p.1).collect::<BTreeSet<_>>().into_iter().collect();
    // left: key slots (key, j); right: units with capacity cap. Kuhn's algorithm with capacities on the right.
    let nslots = keys.len() * demand;
    let mut assigned: Vec<Vec<usize>> = vec![vec![]; units.len()]; // unit -> slots
    let adj = |slot: usize| -> Vec<usize> {
        let k = &keys[slot / demand];
        units.iter().enumerate().filter(|(_, u)| pairs.contains(&(k.clone(), (**u).clone()))).map(|(i, _)| i).collect()
    };
    fn try_slot(slot: usize, demand: usize, cap: usize, adj: &dyn Fn(usize) -> Vec<usize>, assigned: &mut Vec<Vec<usize>>, seen: &mut Vec<bool>) -> bool {
        for u in adj(slot) {
            if seen[u] {
                continue;
            }
            // a unit serves a key at most once
            if assigned[u].iter().any(|s| s / demand == slot / demand) {
                continue;
            }
            seen[u] = true;
            if assigned[u].len() < cap {
                assigned[u].push(slot);
                return true;
            }
            for i in 0..assigned[u].len() {
                let other = assigned[u][i];
                // tentatively hand u over to this slot and re-place the other slot
                assigned[u].remove(i);
                assigned[u].push(slot);
                if try_slot(other, demand, cap, adj, assigned, seen) {
                    return true;
                }
                assigned[u].pop();
                assigned[u].insert(i, other);
            }
        }
        false
    }
    for s in 0..nslots {
        let mut seen = vec![false; units.len()];
        if !try_slot(s, demand, cap, &adj, &mut assigned, &mut seen) {
            return false;
        }
    }
    true
}

pub fn check(case: &Case, st: &mut Stats) -> Vec<Fail> {
    let mut fails = vec![];
    st.eval();
    let Some(p) = prepare(&case.schema, &case.q, &case.dp, st) else { return fails };
    let r = case.q.render(&case.schema);
    let db = case.schema.db();
    let an = ir::analyze(p.rw.relation());
    let cu = case.dp.max_groups as f64;
    let group_tag = format!("{:?}", case.q.group).to_lowercase();
    let from_tag = format!("{:?}", case.q.from).to_lowercase();
    // ---- public key columns only show declared values (checked on the output below)
    let Ok(dp_sql) = render_relation(p.rw.relation()) else {
        st.class("render_panic");
        return fails;
    };
    // data: private keys folded so that units share keys
    let mut rows = db.rows();
    let m = case.key_modulus.max(1) as i64;
    for row in rows[1].iter_mut() {
        if let Cell::Int(v) = row[4] {
            row[4] = Cell::Int(v % m);
        }
    }
    let thr_sigmas: Vec<f64> = an.noise_maps.iter().filter(|m| m.is_threshold_count).map(|m| m.cols[0].sigma).collect();
    // ---- static: tau literal vs the tau required by the share
    let (eps_s, delta_s) = (case.dp.epsilon * case.dp.tau_share, case.dp.delta * case.dp.tau_share);
    let treq = tau_required(eps_s, delta_s, cu);
    for t in &an.thresholds {
        st.class("threshold_literals");
        if !(t.tau >= treq * (1.0 - 1e-9)) {
            fails.push(Fail::new(
                "C04|threshold_below_required_tau",
                format!("query: {}\nparameters {:?}: key release share (epsilon {eps_s}, delta {delta_s}), Cu = {cu}: required tau {treq}; the plan filters on > {}", r.sql, case.dp, t.tau),
            ));
            return fails;
        }
    }
    let pk_pos = r.keys.iter().position(|k| k == "pk");
    let rng = match case.rng % 3 {
        0 => RngMode::Zero,
        1 => RngMode::NearOneDistinct,
        _ => RngMode::Const(((case.u as f64) + 0.5) / 65536.0),
    };
    // the Box-Muller value every noised quantity receives (upper bound for the distinct-draw mode)
    let (z, z_slack) = match rng {
        RngMode::Zero => (0.0, 0.0),
        RngMode::NearOneDistinct => (0.0, 1e-4),
        RngMode::Const(u) => ((-2.0 * u.ln()).sqrt() * (2.0 * std::f64::consts::PI * u).cos(), 1e-9),
        _ => (0.0, 0.0),
    };
    let pairs_sql = {
        let from_at = r.sql.find(" FROM ").unwrap_or(0);
        let end = r.sql.rfind(" GROUP BY ").unwrap_or(r.sql.len());
        format!("SELECT pk AS k, {} AS u{}", unit_expr(case.q.from), &r.sql[from_at..end])
    };
    let res = with_db(|d| {
        d.set_rng(rng);
        d.load(&db, Some(&rows)).ok()?;
        let out = d.query(&dp_sql);
        let pairs = d.query(&pairs_sql);
        Some((out, pairs))
    });
    let Some((out, pairs)) = res else {
        st.reject();
        return fails;
    };
    let out = match out {
        Ok(o) => o,
        Err(_) => {
            st.class("engine_rejects_dp_sql");
            return fails;
        }
    };
    st.class("executed");
    // public columns
    for (i, k) in r.keys.iter().enumerate() {
        let allowed: Option<Vec<String>> = match k.as_str() {
            "kind" => Some(case.schema.kind.iter().map(|v| v.to_string()).collect()),
            "g" => Some(case.schema.g.iter().map(|s| format!("'{s}'")).collect()),
            _ => None,
        };
        if let Some(allowed) = allowed {
            for row in &out.rows {
                let v = row[i].to_string();
                if !allowed.contains(&v) {
                    fails.push(Fail::new(format!("C04|public_key_outside_declared_values|{from_tag}"), format!("query: {}\ncolumn {k} shows {v}; declared values {allowed:?}", r.sql)));
                    return fails;
                }
            }
            st.class("public_key_columns_checked");
        }
    }
    let Some(pk_pos) = pk_pos else {
        st.class("no_private_key");
        return fails;
    };
    if an.thresholds.len() != 1 || thr_sigmas.len() != 1 {
        // a private key column without exactly one key release in the plan
        if an.thresholds.is_empty() {
            fails.push(Fail::new(format!("C04|private_key_without_key_release|{from_tag}|{group_tag}"), format!("query: {}\ngroups by the non-enumerable column pk but the plan has no threshold filter", r.sql)));
        } else {
            st.class("several_key_releases");
        }
        return fails;
    }
    let (tau, sigma) = (an.thresholds[0].tau, thr_sigmas[0]);
    let Ok(pairs) = pairs else {
        st.class("pairs_query_rejected");
        return fails;
    };
    let pair_set: BTreeSet<(String, String)> = pairs.rows.iter().filter(|r| !matches!(r[1], Cell::Null)).map(|r| (r[0].to_string(), r[1].to_string())).collect();
    let mut holders: BTreeMap<String, usize> = BTreeMap::new();
    for (k, _) in &pair_set {
        *holders.entry(k.clone()).or_insert(0) += 1;
    }
    let released: Vec<String> = out.rows.iter().map(|r| r[pk_pos].to_string()).collect::<BTreeSet<_>>().into_iter().collect();
    // least number of units a key needs: n + sigma * z > tau (strictly), leniently rounded
    let noise = sigma * (z + z_slack);
    let slack = 1e-7 * tau.abs().max(noise.abs()).max(1.0);
    let mut demand = 0usize;
    while (demand as f64) + noise <= tau - slack && demand < 1000 {
        demand += 1;
    }
    st.class(&format!("rng:{}", case.rng % 3));
    st.class(&format!("demand:{}", demand.min(6)));
    let detail = |what: String| {
        format!(
            "{what}\nquery: {}\nparameters {:?}; plan threshold {tau}, key-release sigma {sigma}, drawn Box-Muller value {z}; units per key {holders:?}; released keys {released:?}\nrandom source {rng:?}",
            r.sql, case.dp
        )
    };
    let spread = {
        let mut per_unit: BTreeMap<&String, usize> = BTreeMap::new();
        for (_, u) in &pair_set {
            *per_unit.entry(u).or_insert(0) += 1;
        }
        per_unit.values().any(|n| *n as f64 > cu)
    };
    for k in &released {
        let n = holders.get(k).cloned().unwrap_or(0);
        if n < demand {
            let tag = if n <= 1 { "single_unit_key" } else { "rare_key" };
            fails.push(Fail::new(format!("C04|released_below_threshold|{tag}|{from_tag}|{group_tag}"), detail(format!("key {k} is held by {n} unit(s); at least {demand} are needed to exceed the threshold"))));
            return fails;
        }
    }
    if demand > 0 && !released.is_empty() && !feasible(&pair_set, &released, demand, case.dp.max_groups as usize) {
        fails.push(Fail::new(
            format!("C04|released_keys_exceed_group_cap|{from_tag}|{group_tag}"),
            detail(format!("no assignment of units to at most Cu = {cu} keys each gives every released key the {demand} units it needs")),
        ));
        return fails;
    }
    if !released.is_empty() {
        st.class("some_private_key_released");
    }
    if holders.keys().any(|k| !released.contains(k)) {
        st.class("some_private_key_withheld");
    }
    if spread {
        st.class("unit_spread_over_more_than_cu_groups");
    }
    if holders.values().any(|n| *n == 1) {
        st.class("single_unit_key_present");
    }
    if !released.is_empty() && holders.keys().any(|k| !released.contains(k)) {
        st.nontrivial(hash_json(case));
    }
    st.sample(|| json!({"sql": r.sql, "tau": tau, "sigma": sigma, "z": z, "units_per_key": holders, "released": released, "cu": cu}));
    fails
}

pub fn run(ctx: &Ctx, findings: &Findings) -> Report {
    let mut rep = Report::new(
        "C04",
        "exploration",
        "grouped aggregation queries (private key, public + private keys, public keys; single table and joins along the unit path, filters) over generated schemas with 1-8 units and 0-20 orders whose private keys are folded onto 1-6 values (keys shared by several units, keys owned by one unit, units spread over more groups than allowed) x DpParameters (epsilon 2..1000, delta 1e-6..0.1, share 0.25/0.5, 1-5 groups per unit) x random source (noise off with tied ranks; distinct draws with negligible noise; a generated constant draw, i.e. a known Box-Muller value). Non-trivial = at least one private key released and one withheld; distinct by spec hash.",
    );
    rep.assumptions = vec![
        "SQLite + compatibility UDFs execute the rewritten SQL; random() is replaced by the controlled source, so the Gaussian draw added to every distinct-unit count is known".into(),
        "units per key are recomputed from the original FROM/WHERE with COUNT(DISTINCT unit); the oracle is one-directional (released => enough units), with a b-matching for the per-unit group cap".into(),
        "required tau = 1 + sqrt(Cu) * sqrt(2 ln(1.25/delta_s)) / epsilon_s * Phi^-1((1-delta_s)^(1/Cu)) for the share (epsilon_s, delta_s) = share * (epsilon, delta)".into(),
    ];
    rep.legs.push(search(ctx, "C04", "key_release", ctx.cases(9_000, 20), findings, strategy, check));
    rep.require_class("threshold_literals", 1_500);
    rep.require_class("some_private_key_released", 300);
    rep.require_class("some_private_key_withheld", 500);
    rep.require_class("unit_spread_over_more_than_cu_groups", 150);
    rep.require_class("public_key_columns_checked", 500);
    rep
}

pub fn replay(leg: &str, spec: &J, st: &mut Stats) -> Result<Vec<Fail>, String> {
    let _ = leg;
    Ok(check(&decode::<Case>(spec)?, st))
}
