//! C05 — privacy-unit tracking: every tracked row carries a unit and depends only on that unit's data.
use crate::props::dp::*;
use crate::props::sqlprops::{compile, feature, render_relation, with_db, Compiled};
use crate::run::*;
use crate::safe::safe;
use crate::sqlx::db::*;
use crate::sqlx::exec::*;
use crate::sqlx::privacy::*;
use crate::sqlx::query::*;
use proptest::prelude::*;
use qrlew::privacy_unit_tracking::Strategy as PupStrategy;
use qrlew::relation::Variant as _;
use serde::{Deserialize, Serialize};
use serde_json::{json, Value as J};

#[derive(Clone, Debug, Serialize, Deserialize)]
pub struct Case {
    pub schema: DpSchema,
    pub q: Q,
    pub hard: bool,
}

pub fn strategy() -> BoxedStrategy<Case> {
    (schema_strategy(5, 9), crate::sqlx::query::query_strategy(), any::<bool>())
        .prop_map(|(mut schema, q, hard)| {
            // row privacy: unit ids are random draws, the per-unit comparison needs ids that are functions of the data
            if schema.pu_variant % 4 == 2 {
                schema.pu_variant = 3;
            }
            Case { schema, q, hard }
        })
        .boxed()
}

const PU: &str = "_PRIVACY_UNIT_";
const PUW: &str = "_PRIVACY_UNIT_WEIGHT_";

pub fn check(case: &Case, st: &mut Stats) -> Vec<Fail> {
    let mut fails = vec![];
    let db = case.schema.db();
    let (sql, info) = render(&db, &case.q);
    st.eval();
    // root-cause tags of this property: constructs that break per-unit isolation on the unchanged tree are named first
    let feat = {
        let has = |c: &str| info.classes.iter().any(|x| *x == c);
        let mut t: Vec<&str> = vec![];
        if has("join_left") || has("join_right") || has("join_full") {
            t.push("outer_join");
        }
        if has("limit") || has("offset") || has("offset_without_limit") {
            t.push("limit");
        }
        if has("join_cross") {
            t.push("cross_join");
        }
        if t.is_empty() {
            if has("set_operation") {
                t.push("set_operation");
            }
            if has("group_by") || has("global_aggregate") {
                t.push("aggregation");
            }
            if has("distinct") {
                t.push("distinct");
            }
            if has("join_inner") {
                t.push("inner_join");
            }
        }
        if t.is_empty() {
            "plain".to_string()
        } else {
            t.join("+")
        }
    };
    let _ = feature(&info.classes);
    let rel = match compile(&sql, &db) {
        Compiled::Ok(r) => r,
        _ => {
            st.class("not_compiled");
            return fails;
        }
    };
    let rels = db.relations();
    let pu = case.schema.privacy_unit();
    let strat = if case.hard { PupStrategy::Hard } else { PupStrategy::Soft };
    let sname = if case.hard { "hard" } else { "soft" };
    let dp = DpSpec { epsilon: 1.0, delta: 1e-3, tau_share: 0.5, max_mult: 100.0, max_mult_share: 1.0, max_groups: 5 };
    let rw = match safe(|| rel.rewrite_as_privacy_unit_preserving(&rels, None, pu, dp.params(), Some(strat))) {
        Ok(Ok(r)) => r,
        Ok(Err(_)) => {
            st.class("pup_refused");
            return fails;
        }
        Err(_) => {
            st.class("pup_panicked");
            return fails;
        }
    };
    // a rewriting that contains a differentially private aggregation (a published sub-query) legitimately depends on
    // every unit through that mechanism: outside the statement (maps, filters, joins with public or tracked relations,
    // set operations, per-unit aggregations)
    if !rw.dp_event().is_no_op() {
        st.class("contains_dp_aggregation_skipped");
        return fails;
    }
    let r = rw.relation();
    let names: Vec<String> = r.schema().iter().map(|f| f.name().to_string()).collect();
    let (Some(iu), Some(iw)) = (names.iter().position(|n| n == PU), names.iter().position(|n| n == PUW)) else {
        // a public result (no protected table involved) carries no unit: nothing to check
        st.class("result_without_unit_columns");
        return fails;
    };
    st.class("pup_rewritten");
    st.class(&format!("strategy:{sname}"));
    let Ok(rsql) = render_relation(r) else {
        st.class("render_panic");
        return fails;
    };
    let rows = db.rows();
    let owners = case.schema.owners(&rows);
    let protected = case.schema.protected();
    let run = |data: &Vec<Vec<Vec<Cell>>>| -> Option<Result<QueryResult, String>> {
        with_db(|d| {
            d.set_rng(RngMode::NearOneDistinct);
            if d.load(&db, Some(data)).is_err() {
                return None;
            }
            Some(d.query(&rsql))
        })
    };
    let full = match run(&rows) {
        Some(Ok(f)) => f,
        Some(Err(e)) => {
            let class = if e.contains("duplicate WITH") { "duplicate_cte" } else if e.contains("no such column") { "no_such_column" } else { "other" };
            fails.push(Fail::new(format!("C05|sql_rejected|{class}"), format!("query: {sql}\nengine error on the rewritten query: {e}")));
            return fails;
        }
        None => {
            st.reject();
            return fails;
        }
    };
    let detail = |what: String| format!("{what}\nquery: {sql}\nstrategy {sname}, privacy unit variant {}, rows per table {:?}\nrewritten result: {}", case.schema.pu_variant, db.tables.iter().map(|t| t.nrows).collect::<Vec<_>>(), show_rows(&full.rows, 8));
    // (a) unit and weight are never NULL (checking continues on the rows that do carry a unit)
    let mut has_null = false;
    if full.rows.iter().any(|row| matches!(row[iu], Cell::Null)) {
        fails.push(Fail::new(format!("C05|null_unit|{sname}|{feat}"), detail("a tracked row has a NULL privacy unit".into())));
        has_null = true;
    } else if full.rows.iter().any(|row| matches!(row[iw], Cell::Null)) {
        fails.push(Fail::new(format!("C05|null_weight|{sname}|{feat}"), detail("a tracked row has a NULL weight".into())));
        has_null = true;
    }
    let nn = if has_null { "_among_rows_with_a_unit" } else { "" };
    let keep = |rows: &Vec<Vec<Cell>>| -> Vec<Vec<Cell>> { rows.iter().filter(|r| !matches!(r[iu], Cell::Null)).cloned().collect() };
    let full = QueryResult { names: full.names.clone(), rows: keep(&full.rows) };
    // (b) per-unit isolation
    let mut units: Vec<String> = owners.iter().flatten().flatten().cloned().collect();
    units.sort();
    units.dedup();
    units.push("__absent__".into());
    let mut covered = vec![false; full.rows.len()];
    let mut units_with_rows = 0;
    for u in &units {
        let restricted: Vec<Vec<Vec<Cell>>> = rows
            .iter()
            .enumerate()
            .map(|(ti, trows)| {
                if protected.contains(&db.tables[ti].name.as_str()) {
                    trows.iter().enumerate().filter(|(ri, _)| owners[ti][*ri].as_ref() == Some(u)).map(|(_, r)| r.clone()).collect()
                } else {
                    trows.clone()
                }
            })
            .collect();
        let part = match run(&restricted) {
            Some(Ok(p)) => QueryResult { names: p.names.clone(), rows: keep(&p.rows) },
            _ => continue,
        };
        if part.rows.is_empty() {
            continue;
        }
        units_with_rows += 1;
        // the unit value(s) carried by the restricted run
        let mut vals: Vec<String> = part.rows.iter().map(|r| r[iu].to_string()).collect();
        vals.sort();
        vals.dedup();
        if vals.len() != 1 {
            fails.push(Fail::new(format!("C05|several_units_in_one_unit_db{nn}|{sname}|{feat}"), detail(format!("on the database restricted to unit {u} the rewritten query returns rows of units {vals:?}"))));
            return fails;
        }
        let v = &vals[0];
        let mine: Vec<Vec<Cell>> = full.rows.iter().enumerate().filter(|(_, r)| &r[iu].to_string() == v).map(|(i, r)| {
            covered[i] = true;
            r.clone()
        }).collect();
        if !same_multiset(&mine, &part.rows, 1e-9) {
            fails.push(Fail::new(
                format!("C05|unit_rows_differ{nn}|{sname}|{feat}"),
                detail(format!("rows attributed to unit {u} ({v}) on the full database: {}\nrows on the database restricted to that unit: {}", show_rows(&mine, 6), show_rows(&part.rows, 6))),
            ));
            return fails;
        }
    }
    if let Some(i) = covered.iter().position(|c| !c) {
        fails.push(Fail::new(
            format!("C05|row_of_no_unit{nn}|{sname}|{feat}"),
            detail(format!("row {} of the full result is not produced by any single-unit database", show_rows(&[full.rows[i].clone()], 1))),
        ));
        return fails;
    }
    if units_with_rows >= 2 {
        st.nontrivial(hash_json(case));
        st.class("two_or_more_units_with_rows");
    }
    for c in &info.classes {
        if c.starts_with("join") || *c == "set_operation" || *c == "group_by" {
            st.class(&format!("q:{c}"));
        }
    }
    st.class(&format!("pu_variant:{}", case.schema.pu_variant % 4));
    st.sample(|| json!({"sql": sql, "strategy": sname, "pu_variant": case.schema.pu_variant, "rows": full.rows.len(), "units_with_rows": units_with_rows}));
    fails
}

pub fn run(ctx: &Ctx, findings: &Findings) -> Report {
    let mut rep = Report::new(
        "C05",
        "exploration",
        "schema users <- orders <- items + a public table with three privacy-unit layouts (own id with foreign-key paths of 1-2 steps; unit column on the fact table with users public; users and orders only), hashed or not, 1-5 units, 0-9 orders (40 % of the schemas with dangling foreign keys), queries from the general grammar (projections, filters, joins of every kind between tracked and public relations, set operations, aggregations), both strategies. The rewritten relation is executed on the full database and on the database restricted to each unit (protected rows of other units deleted, public tables intact): every row must carry a non-NULL unit and weight, the rows of the full result carrying unit u must equal the result on D|u, and every row must belong to some unit. Non-trivial = at least two units have rows in the result; distinct by spec hash.",
    );
    rep.assumptions = vec!["SQLite + compatibility UDFs (md5 is an injective tagging) execute the rewritten relation".into(), "row-privacy layouts are replaced by data-defined units (their ids are random draws)".into()];
    rep.legs.push(search(ctx, "C05", "isolation", ctx.cases(14_000, 20), findings, strategy, check));
    rep.require_class("two_or_more_units_with_rows", 800);
    rep.require_class("strategy:hard", 300);
    rep.require_class("strategy:soft", 300);
    rep
}

pub fn replay(leg: &str, spec: &J, st: &mut Stats) -> Result<Vec<Fail>, String> {
    let _ = leg;
    Ok(check(&decode::<Case>(spec)?, st))
}
