//! SQL-level properties executed on SQLite: C08 (SQL -> Relation -> SQL preserves results),
//! C07 (schemas and size bounds contain what execution produces), C14 (declared-unique columns are unique).
use crate::member::{lax, Tri};
use crate::props::c06::dt_class;
use crate::run::*;
use crate::safe::safe;
use crate::sqlx::db::*;
use crate::sqlx::exec::*;
use crate::sqlx::query::*;
use proptest::prelude::*;
use qrlew::data_type::value::Value;
use qrlew::data_type::{DataType, DataTyped as _, Variant as _};
use qrlew::relation::{field::Constraint, JoinOperator, Relation, Variant as _};
use qrlew::sql::relation::QueryWithRelations;
use serde::{Deserialize, Serialize};
use serde_json::{json, Value as J};
use std::cell::RefCell;

#[derive(Clone, Debug, Serialize, Deserialize)]
pub struct SqlCase {
    pub db: DbSpec,
    pub q: Q,
}

pub fn case_strategy() -> BoxedStrategy<SqlCase> {
    (db_strategy(3, 7), query_strategy()).prop_map(|(db, q)| SqlCase { db, q }).boxed()
}

thread_local! {
    static DB: RefCell<Option<Db>> = RefCell::new(None);
}

pub fn with_db<T>(f: impl FnOnce(&Db) -> T) -> T {
    DB.with(|d| {
        let mut d = d.borrow_mut();
        if d.is_none() {
            *d = Some(Db::new().expect("sqlite"));
        }
        f(d.as_ref().unwrap())
    })
}

pub enum Compiled {
    Ok(Relation),
    Err(String),
    Panic(crate::safe::Panicked),
}

pub fn compile(sql: &str, db: &DbSpec) -> Compiled {
    let rels = db.relations();
    let r = safe(|| {
        let query = qrlew::sql::relation::parse(sql).map_err(|e| e.to_string())?;
        Relation::try_from(QueryWithRelations::new(&query, &rels)).map_err(|e| e.to_string())
    });
    match r {
        Ok(Ok(r)) => Compiled::Ok(r),
        Ok(Err(e)) => Compiled::Err(e),
        Err(p) => Compiled::Panic(p),
    }
}

pub fn render_relation(r: &Relation) -> Result<String, crate::safe::Panicked> {
    safe(|| qrlew::ast::Query::from(r).to_string())
}

/// Root-cause tag of a query for violation keys: every known-problematic construct it contains (joined by '+'),
/// otherwise its most specific ordinary feature.
pub fn feature(classes: &[&'static str]) -> String {
    if classes.contains(&"raw") {
        return "raw".into();
    }
    let problem: Vec<&str> = ["group_by_without_aggregate", "star_over_join", "set_operation_names_differ", "having", "join_natural", "join_using", "cte_named_like_table", "cte_named_like_table_read_earlier"]
        .into_iter()
        .filter(|c| classes.contains(c))
        .collect();
    if !problem.is_empty() {
        return problem.join("+");
    }
    for c in [
        "set_operation", "union_all", "cte_reference", "cte", "derived_table", "join_full", "join_right", "join_left", "join_cross", "join_on_extra_predicate", "join_inner", "group_by_alias",
        "group_by_expression", "group_by_multiple_keys", "distinct_aggregate", "stddev_variance", "aggregate_expression", "group_by", "global_aggregate", "distinct", "offset", "limit", "order_by",
        "select_star", "case", "coalesce", "in_list", "is_null", "division", "modulo", "string_function", "cast", "where",
    ] {
        if classes.contains(&c) {
            return c.to_string();
        }
    }
    "plain".into()
}

fn err_class(e: &str) -> String {
    let e = e.to_lowercase();
    for (pat, name) in [
        ("ambiguous column", "ambiguous_column"),
        ("no such column", "no_such_column"),
        ("no such table", "no_such_table"),
        ("no such function", "no_such_function"),
        ("syntax error", "syntax_error"),
        ("duplicate", "duplicate_name"),
        ("wrong number of arguments", "wrong_arity"),
    ] {
        if e.contains(pat) {
            return name.to_string();
        }
    }
    "other".into()
}

// ---------------------------------------------------------------------------------------------
// C08

#[derive(Clone, Debug, Serialize, Deserialize)]
pub struct RawCase {
    pub db: DbSpec,
    pub sql: String,
    #[serde(default)]
    pub names: Vec<Option<String>>,
}

pub fn check_c08(case: &SqlCase, st: &mut Stats) -> Vec<Fail> {
    if case.db.tables.iter().any(|t| t.cols.is_empty()) {
        st.reject();
        return vec![];
    }
    let (sql, info) = render(&case.db, &case.q);
    check_c08_sql(&case.db, &sql, &info, hash_json(case), st)
}

pub fn check_c08_raw(case: &RawCase, st: &mut Stats) -> Vec<Fail> {
    let info = Info { out: case.names.iter().map(|n| (n.clone(), Kind::Int)).collect(), order: vec![], has_limit: false, classes: vec!["raw"] };
    check_c08_sql(&case.db, &case.sql, &info, hash_json(case), st)
}

fn check_c08_sql(dbspec: &DbSpec, sql: &str, info: &Info, case_hash: u64, st: &mut Stats) -> Vec<Fail> {
    let mut fails = vec![];
    let sql = sql.to_string();
    struct CaseView<'a> {
        db: &'a DbSpec,
    }
    let case = CaseView { db: dbspec };
    st.eval();
    let feat = feature(&info.classes);
    let orig = with_db(|db| {
        db.set_rng(RngMode::Zero);
        if let Err(e) = db.load(&case.db, None) {
            return Err(format!("load: {e}"));
        }
        db.query(&sql)
    });
    let orig = match orig {
        Ok(o) => o,
        Err(e) => {
            st.class(&format!("engine_rejects_original:{}", err_class(&e)));
            return fails;
        }
    };
    let rel = match compile(&sql, &case.db) {
        Compiled::Ok(r) => r,
        Compiled::Err(_) => {
            st.class("library_err");
            st.class(&format!("library_err:{feat}"));
            return fails;
        }
        Compiled::Panic(_) => {
            st.class("library_panic");
            return fails;
        }
    };
    st.class("compiled");
    for c in &info.classes {
        st.class(&format!("q:{c}"));
    }
    let rendered = match render_relation(&rel) {
        Ok(s) => s,
        Err(_) => {
            st.class("render_panic");
            return fails;
        }
    };
    let back = with_db(|db| db.query(&rendered));
    let back = match back {
        Ok(b) => b,
        Err(e) => {
            fails.push(Fail::new(
                format!("C08|rendered_rejected|{}|{feat}", err_class(&e)),
                format!("original: {sql}\nrendered: {rendered}\nengine error on rendered: {e}"),
            ));
            return fails;
        }
    };
    st.class("disagreements_checked");
    let nt = !orig.rows.is_empty() && safe(|| count_nodes(&rel)).unwrap_or(0) >= 2;
    if nt {
        st.nontrivial(case_hash);
    }
    let detail = |what: &str| format!("{what}\noriginal: {sql}\nrendered: {rendered}\noriginal rows: {}\nrendered rows: {}", show_rows(&orig.rows, 6), show_rows(&back.rows, 6));
    // column count
    if orig.names.len() != back.names.len() {
        fails.push(Fail::new(format!("C08|column_count|{feat}"), detail(&format!("{} columns vs {}", orig.names.len(), back.names.len()))));
        return fails;
    }
    // names in order (only where the query determines the name)
    for (i, (n, _)) in info.out.iter().enumerate() {
        if let Some(n) = n {
            if i < back.names.len() && &back.names[i] != n {
                fails.push(Fail::new(format!("C08|column_name|{feat}"), detail(&format!("column {i} is named {:?}, expected {:?}", back.names[i], n))));
                return fails;
            }
        }
    }
    if info.has_limit {
        st.class("compared_count_only");
        if orig.rows.len() != back.rows.len() {
            fails.push(Fail::new(format!("C08|row_count|{feat}"), detail(&format!("{} rows vs {}", orig.rows.len(), back.rows.len()))));
        }
        return fails;
    }
    if orig.rows.len() != back.rows.len() {
        fails.push(Fail::new(format!("C08|row_count|{feat}"), detail(&format!("{} rows vs {}", orig.rows.len(), back.rows.len()))));
        return fails;
    }
    if !same_multiset(&orig.rows, &back.rows, 1e-9) {
        fails.push(Fail::new(format!("C08|rows_differ|{feat}"), detail("row multisets differ")));
        return fails;
    }
    if !info.order.is_empty() {
        st.class("compared_ordered");
        let key = |r: &Vec<Cell>| -> Vec<Cell> { info.order.iter().map(|(k, _)| r.get(*k).cloned().unwrap_or(Cell::Null)).collect() };
        let a: Vec<Vec<Cell>> = orig.rows.iter().map(key).collect();
        let b: Vec<Vec<Cell>> = back.rows.iter().map(key).collect();
        if !a.iter().zip(b.iter()).all(|(x, y)| x.iter().zip(y.iter()).all(|(p, q)| cell_eq(p, q, 1e-9))) {
            fails.push(Fail::new(format!("C08|order_differs|{feat}"), detail("ORDER BY key sequences differ")));
        }
    }
    st.sample(|| json!({"sql": sql, "rendered_len": rendered.len(), "rows": orig.rows.len(), "tables": case.db.tables.iter().map(|t| format!("{}({} rows)", t.name, t.nrows)).collect::<Vec<_>>()}));
    fails
}

/// which sides of the ON equalities are declared unique: "both_keys_unique", "one_key_unique", "no_key_unique"
pub fn join_key_uniqueness(j: &qrlew::relation::Join) -> &'static str {
    use qrlew::expr::{function::Function as F, Expr};
    use qrlew::relation::JoinOperator as JO;
    fn eqs(e: &Expr, out: &mut Vec<(Expr, Expr)>) {
        if let Expr::Function(f) = e {
            match f.function() {
                F::And => f.arguments().iter().for_each(|a| eqs(a, out)),
                F::Eq => {
                    let a = f.arguments();
                    out.push((a[0].clone(), a[1].clone()));
                }
                _ => {}
            }
        }
    }
    let e = match j.operator() {
        JO::Inner(e) | JO::LeftOuter(e) | JO::RightOuter(e) | JO::FullOuter(e) => e,
        JO::Cross => return "no_key_unique",
    };
    let mut pairs = vec![];
    eqs(e, &mut pairs);
    let unique = |side: &str, schema: &qrlew::relation::Schema, x: &Expr| -> bool {
        if let Expr::Column(c) = x {
            if c.first().map(|s| s.to_string()).as_deref() == Some(side) {
                let name = c.last().map(|s| s.to_string()).unwrap_or_default();
                return schema.iter().any(|f| f.name() == name && matches!(f.constraint(), Some(Constraint::Unique) | Some(Constraint::PrimaryKey)));
            }
        }
        false
    };
    let (mut l, mut r) = (false, false);
    for (a, b) in &pairs {
        for x in [a, b] {
            l |= unique("_LEFT_", j.left().schema(), x);
            r |= unique("_RIGHT_", j.right().schema(), x);
        }
    }
    match (l, r) {
        (true, true) => "both_keys_unique",
        (false, false) => "no_key_unique",
        _ => "one_key_unique",
    }
}

pub fn count_nodes(r: &Relation) -> usize {
    1 + r.inputs().iter().map(|i| count_nodes(i)).sum::<usize>()
}

// ---------------------------------------------------------------------------------------------
// C07 / C14: per-node execution

pub fn node_kind(r: &Relation) -> String {
    match r {
        Relation::Table(_) => "table".into(),
        Relation::Map(m) => {
            let mut s = "map".to_string();
            if m.filter().is_some() {
                s.push_str("+filter");
            }
            if m.limit().is_some() || m.offset().is_some() {
                s.push_str("+limit");
            }
            s
        }
        Relation::Reduce(rd) => {
            if rd.group_by().is_empty() {
                "reduce:global".into()
            } else {
                "reduce:grouped".into()
            }
        }
        Relation::Join(j) => format!(
            "join:{}",
            match j.operator() {
                JoinOperator::Inner(_) => "inner",
                JoinOperator::LeftOuter(_) => "left",
                JoinOperator::RightOuter(_) => "right",
                JoinOperator::FullOuter(_) => "full",
                JoinOperator::Cross => "cross",
            }
        ),
        Relation::Set(s) => format!("set:{}:{}", s.operator(), s.quantifier()).to_lowercase(),
        Relation::Values(_) => "values".into(),
    }
}

pub fn all_nodes<'a>(r: &'a Relation, out: &mut Vec<&'a Relation>) {
    if out.iter().any(|x| std::ptr::eq(*x, r)) {
        return;
    }
    out.push(r);
    for i in r.inputs() {
        all_nodes(i, out);
    }
}

/// convert an engine cell to a library value, guided by the declared type
pub fn cell_value(c: &Cell, t: &DataType) -> Option<Value> {
    let inner = match t {
        DataType::Optional(o) => o.data_type(),
        t => t,
    };
    Some(match (c, inner) {
        (Cell::Null, _) => crate::member::value_none(),
        (Cell::Int(i), DataType::Boolean(_)) if *i == 0 || *i == 1 => Value::boolean(*i == 1),
        (Cell::Int(i), DataType::Float(_)) => Value::float(*i as f64),
        (Cell::Int(i), _) => Value::integer(*i),
        (Cell::Real(f), DataType::Integer(_)) if f.fract() == 0.0 && f.abs() < 9e15 => Value::integer(*f as i64),
        (Cell::Real(f), _) => Value::float(*f),
        (Cell::Text(s), DataType::Date(_)) => match chrono::NaiveDate::parse_from_str(s, "%Y-%m-%d") {
            Ok(d) => Value::date(d),
            Err(_) => Value::text(s.clone()),
        },
        (Cell::Text(s), _) => Value::text(s.clone()),
        (Cell::Blob(b), _) => Value::bytes(b.clone()),
    })
}

/// names of the functions used in an expression (sorted, unique)
pub fn expr_functions(e: &qrlew::expr::Expr) -> Vec<String> {
    fn go(e: &qrlew::expr::Expr, out: &mut Vec<String>) {
        match e {
            qrlew::expr::Expr::Function(f) => {
                out.push(f.function().to_string());
                for a in f.arguments() {
                    go(&a, out);
                }
            }
            qrlew::expr::Expr::Aggregate(a) => {
                out.push(a.aggregate().to_string());
                go(a.argument(), out);
            }
            qrlew::expr::Expr::Struct(_) | qrlew::expr::Expr::Column(_) | qrlew::expr::Expr::Value(_) => {}
        }
    }
    let mut out = vec![];
    go(e, &mut out);
    out.sort();
    out.dedup();
    out
}

/// what computes column i of a node: function names for a Map, the aggregate for a Reduce
pub fn column_origin(node: &Relation, i: usize) -> String {
    match node {
        Relation::Map(m) => {
            let f = m.projection().get(i).map(expr_functions).unwrap_or_default();
            if f.is_empty() {
                return "column".into();
            }
            // the construct most likely responsible, by priority
            for (name, tag) in [("/", "division"), ("case", "case"), ("coalesce", "coalesce"), ("is_null", "is_null"), ("in", "in_list"), ("%", "modulo"), ("cast_as_float", "cast"), ("cast_as_text", "cast"), ("char_length", "string"), ("upper", "string"), ("lower", "string"), ("||", "string"), ("concat", "concat"), ("abs", "abs")] {
                if f.iter().any(|x| x == name) {
                    return tag.into();
                }
            }
            "arithmetic_or_comparison".into()
        }
        Relation::Reduce(r) => r.aggregate().get(i).map(|a| a.aggregate().to_string()).unwrap_or_default(),
        Relation::Join(j) => {
            if i < j.left().schema().len() {
                "left_side".into()
            } else {
                "right_side".into()
            }
        }
        _ => "-".into(),
    }
}

/// floating-point results of the engine (sums, averages) may differ from the bound by rounding: relative 1e-12
pub fn near_float_type(t: &DataType, v: &Value) -> bool {
    let t = match t {
        DataType::Optional(o) => o.data_type(),
        t => t,
    };
    let (DataType::Float(iv), Value::Float(f)) = (t, v) else { return false };
    let f: f64 = **f;
    iv.iter().any(|[a, b]| {
        let tol = 1e-12 * f.abs().max(a.abs()).max(b.abs()).max(1e-300);
        f >= a - tol && f <= b + tol
    })
}

pub struct NodeRun<'a> {
    pub node: &'a Relation,
    pub kind: String,
    pub result: QueryResult,
}

/// compile the case and execute every sub-relation; None when the case is not usable
pub fn run_nodes<'a>(case: &SqlCase, rel: &'a Relation, st: &mut Stats) -> Vec<NodeRun<'a>> {
    let mut nodes = vec![];
    all_nodes(rel, &mut nodes);
    let mut out = vec![];
    for n in nodes {
        let Ok(sql) = render_relation(n) else { continue };
        let res = with_db(|db| db.query(&sql));
        match res {
            Ok(result) => out.push(NodeRun { node: n, kind: node_kind(n), result }),
            Err(e) => {
                st.class(&format!("node_rendering_rejected:{}", err_class(&e)));
            }
        }
    }
    let _ = case;
    out
}

fn prepare(case: &SqlCase, st: &mut Stats) -> Option<(String, Info, Relation)> {
    if case.db.tables.iter().any(|t| t.cols.is_empty()) {
        st.reject();
        return None;
    }
    let (sql, info) = render(&case.db, &case.q);
    st.eval();
    let loaded = with_db(|db| {
        db.set_rng(RngMode::Zero);
        db.load(&case.db, None).is_ok()
    });
    if !loaded {
        st.reject();
        return None;
    }
    match compile(&sql, &case.db) {
        Compiled::Ok(r) => {
            st.class("compiled");
            Some((sql, info, r))
        }
        Compiled::Err(_) => {
            st.class("library_err");
            None
        }
        Compiled::Panic(_) => {
            st.class("library_panic");
            None
        }
    }
}

pub fn check_c07(case: &SqlCase, st: &mut Stats) -> Vec<Fail> {
    let mut fails = vec![];
    let Some((sql, info, rel)) = prepare(case, st) else { return fails };
    // the generated rows conform to the declared base types (re-checked here, not assumed)
    let rows = case.db.rows();
    for (t, trows) in case.db.tables.iter().zip(rows.iter()) {
        for r in trows {
            for (c, cell) in t.cols.iter().zip(r.iter()) {
                let dt = c.data_type();
                let ok = cell_value(cell, &dt).map_or(false, |v| lax(&dt, &v) != Tri::No);
                if !ok {
                    st.reject();
                    return fails;
                }
            }
        }
    }
    let runs = run_nodes(case, &rel, st);
    let mut nt = false;
    let mut seen: Vec<String> = vec![];
    // violations are attributed to the upstream-most node: a node is reported only if no node below it is already wrong
    let mut bad_nodes: Vec<*const Relation> = vec![];
    let mut node_fails: Vec<(*const Relation, Fail)> = vec![];
    for run in &runs {
        let schema = run.node.schema();
        let kind = &run.kind;
        st.class(&format!("node:{kind}"));
        let n = run.result.rows.len() as i64;
        if n > 0 {
            nt = true;
        }
        // size bound
        let size = run.node.size();
        if !size.contains(&n) {
            let which = match (size.min(), size.max()) {
                (Some(lo), _) if n < *lo => "size_low",
                (_, Some(hi)) if n > *hi => "size_high",
                _ => "size_hole",
            };
            let mut key = format!("C07|{kind}|{which}");
            if let (Relation::Join(j), "size_high") = (run.node, which) {
                key.push_str(&format!("|{}", join_key_uniqueness(j)));
            }
            bad_nodes.push(run.node as *const Relation);
            node_fails.push((
                run.node as *const Relation,
                Fail::new(
                    key,
                    format!("query: {sql}\nnode {kind} `{}` returns {n} rows, declared size {size}\nnode sql: {}", run.node.name(), render_relation(run.node).unwrap_or_default()),
                ),
            ));
        }
        if n == 0 {
            st.class("node_empty_result");
        }
        // cell types
        if schema.len() != run.result.names.len() {
            continue;
        }
        'rows: for row in &run.result.rows {
            for (ci, (f, cell)) in schema.iter().zip(row.iter()).enumerate() {
                let dt = f.data_type();
                let is_null = matches!(cell, Cell::Null);
                if is_null {
                    st.class("null_cell");
                }
                let ok = if is_null {
                    matches!(dt, DataType::Optional(_) | DataType::Any)
                } else {
                    cell_value(cell, &dt).map_or(false, |v| lax(&dt, &v) != Tri::No || near_float_type(&dt, &v))
                };
                if !ok {
                    let which = if is_null { "null_in_non_optional".to_string() } else { format!("value_outside:{}", dt_class(&dt)) };
                    let key = format!("C07|{kind}|{which}|{}", column_origin(run.node, ci));
                    bad_nodes.push(run.node as *const Relation);
                    node_fails.push((
                        run.node as *const Relation,
                        Fail::new(
                            key,
                            format!(
                                "query: {sql}\nnode {kind} `{}` column {} = {cell} is outside its declared type {dt}\nnode sql: {}",
                                run.node.name(),
                                f.name(),
                                render_relation(run.node).unwrap_or_default()
                            ),
                        ),
                    ));
                    break 'rows;
                }
            }
        }
    }
    for (node, f) in node_fails {
        let mut below: Vec<&Relation> = vec![];
        for i in unsafe { &*node }.inputs() {
            all_nodes(i, &mut below);
        }
        if below.iter().any(|b| bad_nodes.contains(&(*b as *const Relation))) {
            st.class("downstream_of_a_violation");
            continue;
        }
        if !seen.contains(&f.key) {
            seen.push(f.key.clone());
            fails.push(f);
        }
    }
    if nt {
        st.nontrivial(hash_json(case));
    }
    for c in &info.classes {
        st.class(&format!("q:{c}"));
    }
    if case.db.tables.iter().any(|t| t.nrows == 0) {
        st.class("empty_input_table");
    }
    st.sample(|| json!({"sql": sql, "nodes": runs.iter().map(|r| format!("{}:{} rows, size {}", r.kind, r.result.rows.len(), r.node.size())).collect::<Vec<_>>()}));
    fails
}

pub fn check_c14(case: &SqlCase, st: &mut Stats) -> Vec<Fail> {
    let mut fails = vec![];
    let Some((sql, info, rel)) = prepare(case, st) else { return fails };
    let runs = run_nodes(case, &rel, st);
    let mut nt = false;
    let mut seen: Vec<String> = vec![];
    let mut bad_nodes: Vec<*const Relation> = vec![];
    let mut node_fails: Vec<(*const Relation, Fail)> = vec![];
    for run in &runs {
        let schema = run.node.schema();
        if schema.len() != run.result.names.len() {
            continue;
        }
        for (i, f) in schema.iter().enumerate() {
            if !matches!(f.constraint(), Some(Constraint::Unique) | Some(Constraint::PrimaryKey)) {
                continue;
            }
            st.class(&format!("unique_flag:{}", run.kind));
            let mut vals: Vec<&Cell> = run.result.rows.iter().map(|r| &r[i]).filter(|c| !matches!(c, Cell::Null)).collect();
            if vals.len() >= 2 && !matches!(run.node, Relation::Table(_)) {
                nt = true;
                st.class(&format!("unique_flag_checked:{}", run.kind));
            }
            vals.sort_by(|a, b| format!("{a}").cmp(&format!("{b}")));
            let dup = vals.windows(2).find(|w| cell_eq(w[0], w[1], 0.0));
            if let Some(w) = dup {
                let how = unique_origin(run.node, i);
                let key = format!("C14|{}|{how}", run.kind);
                bad_nodes.push(run.node as *const Relation);
                node_fails.push((
                    run.node as *const Relation,
                    Fail::new(
                        key,
                        format!(
                            "query: {sql}\nnode {} `{}` declares column {} unique but the value {} occurs twice\nnode sql: {}",
                            run.kind,
                            run.node.name(),
                            f.name(),
                            w[0],
                            render_relation(run.node).unwrap_or_default()
                        ),
                    ),
                ));
            }
        }
    }
    for (node, f) in node_fails {
        let mut below: Vec<&Relation> = vec![];
        for i in unsafe { &*node }.inputs() {
            all_nodes(i, &mut below);
        }
        if below.iter().any(|b| bad_nodes.contains(&(*b as *const Relation))) {
            st.class("downstream_of_a_violation");
            continue;
        }
        if !seen.contains(&f.key) {
            seen.push(f.key.clone());
            fails.push(f);
        }
    }
    if nt {
        st.nontrivial(hash_json(case));
    }
    for c in &info.classes {
        st.class(&format!("q:{c}"));
    }
    st.sample(|| json!({"sql": sql, "unique_columns": runs.iter().map(|r| format!("{}: {:?}", r.kind, r.node.schema().iter().filter(|f| f.constraint().is_some()).map(|f| f.name().to_string()).collect::<Vec<_>>())).collect::<Vec<_>>()}));
    fails
}

#[derive(Clone, Debug, Serialize, Deserialize)]
pub struct ValuesCase {
    /// 0 ints, 1 floats, 2 texts
    pub kind: u8,
    pub items: Vec<u8>,
}

pub fn values_strategy() -> BoxedStrategy<ValuesCase> {
    (0u8..3, proptest::collection::vec(0u8..6, 1..7)).prop_map(|(kind, items)| ValuesCase { kind, items }).boxed()
}

/// literal value lists: the Values relation's column may be flagged unique only if the literals are pairwise distinct
pub fn check_c14_values(case: &ValuesCase, st: &mut Stats) -> Vec<Fail> {
    use qrlew::builder::Ready;
    let mut fails = vec![];
    let vals: Vec<Value> = case
        .items
        .iter()
        .map(|i| match case.kind % 3 {
            0 => Value::integer(*i as i64 - 2),
            1 => Value::float(*i as f64 / 2.0),
            _ => Value::text(["a", "b", "c", "ab", "B", "z"][*i as usize % 6]),
        })
        .collect();
    st.eval();
    let rel: Relation = match safe(|| Relation::values().name("v").values(vals.clone()).try_build()) {
        Ok(Ok(v)) => Relation::Values(v),
        _ => {
            st.class("values_build_failed");
            return fails;
        }
    };
    let distinct = {
        let mut seen: Vec<&Value> = vec![];
        vals.iter().all(|v| {
            if seen.contains(&v) {
                false
            } else {
                seen.push(v);
                true
            }
        })
    };
    let adjacent_only = !distinct && {
        let mut d = vals.clone();
        d.dedup();
        let mut seen: Vec<&Value> = vec![];
        d.iter().all(|v| {
            if seen.contains(&v) {
                false
            } else {
                seen.push(v);
                true
            }
        })
    };
    let flagged = rel.schema().iter().any(|f| matches!(f.constraint(), Some(Constraint::Unique) | Some(Constraint::PrimaryKey)));
    st.class(if distinct { "values_distinct" } else if adjacent_only { "values_adjacent_duplicates" } else { "values_separated_duplicates" });
    if !distinct && vals.len() >= 2 {
        st.nontrivial(hash_json(case));
    }
    if flagged && !distinct {
        fails.push(Fail::new(
            format!("C14|values|{}", if adjacent_only { "adjacent_duplicates" } else { "separated_duplicates" }),
            format!("VALUES {:?} is declared unique although a literal repeats", vals.iter().map(|v| v.to_string()).collect::<Vec<_>>()),
        ));
    }
    st.sample(|| json!({"values": vals.iter().map(|v| v.to_string()).collect::<Vec<_>>(), "declared_unique": flagged}));
    fails
}

/// how the unique flag arrived on column i of the node (root-cause part of the key)
fn unique_origin(node: &Relation, i: usize) -> String {
    match node {
        Relation::Map(m) => {
            let e = &m.projection()[i];
            match e {
                qrlew::expr::Expr::Column(_) => "projection:column".into(),
                qrlew::expr::Expr::Function(f) => format!("projection:{}", f.function()),
                _ => "projection:other".into(),
            }
        }
        Relation::Reduce(r) => {
            let (agg, is_key) = r
                .aggregate()
                .get(i)
                .map(|a| (a.aggregate().to_string(), r.group_by().iter().any(|g| g == a.column())))
                .unwrap_or_default();
            format!("group_by_arity:{}|{agg}:{}", r.group_by().len(), if is_key { "key" } else { "nonkey" })
        }
        Relation::Join(j) => {
            let nl = j.left().schema().len();
            if i < nl {
                "left_side".into()
            } else {
                "right_side".into()
            }
        }
        Relation::Set(_) => "set".into(),
        Relation::Values(_) => "values".into(),
        Relation::Table(_) => "table".into(),
    }
}

// ---------------------------------------------------------------------------------------------

pub fn run_c08(ctx: &Ctx, findings: &Findings) -> Report {
    let mut rep = Report::new(
        "C08",
        "translation_validation",
        "a database (1-3 tables, 1-4 columns of int ranges / int sets / float ranges / text sets / dates, nullable and unique flags, 0-7 rows drawn inside the declared types, NULLs, duplicate and dangling keys) and a query from the grammar (scalar/aggregate/mixed items with aliases, *, WHERE, GROUP BY on columns, expressions and aliases, HAVING, DISTINCT, COUNT/SUM/AVG/MIN/MAX/STDDEV/VARIANCE [DISTINCT], CTEs, derived tables, join chains INNER/LEFT/RIGHT/FULL/CROSS with ON/USING/NATURAL, UNION/INTERSECT/EXCEPT, ORDER BY/LIMIT/OFFSET, CASE, IN, IS NULL, COALESCE, CAST, arithmetic, string functions). The original text and the text rendered from the parsed relation run on the same SQLite database; column count, output names in order, row multiset (and ORDER BY key sequence) must agree; with LIMIT only the row count is compared. Non-trivial = both accepted, >= 1 row and >= 2 relational nodes; distinct by spec hash.",
    );
    rep.assumptions = vec![
        "SQLite (with the compatibility UDFs and the VALUES alias patch) is the execution oracle inside the semantic intersection with the IR (PostgreSQL flavour): no division by zero, float division only, no integer overflow, byte-wise text comparison".into(),
        "queries the engine rejects (e.g. ambiguous names) or the library refuses with Err are not compared".into(),
    ];
    rep.legs.push(search(ctx, "C08", "roundtrip", ctx.cases(24_000, 25), findings, case_strategy, check_c08));
    for c in ["q:group_by", "q:join_left", "q:join_full", "q:join_using", "q:set_operation", "q:cte", "q:derived_table", "q:having", "q:order_by", "q:limit", "q:distinct", "q:group_by_alias"] {
        rep.require_class(c, 30);
    }
    rep
}

pub fn run_c07(ctx: &Ctx, findings: &Findings) -> Report {
    let mut rep = Report::new(
        "C07",
        "exploration",
        "same generator as C08 (database conforming to its declared schema by construction and re-checked with the library's own membership; query from the supported grammar). Every sub-relation of the parsed relation is rendered and executed on SQLite; each cell must lie in the declared field type (NULL only where the type is optional) and the row count in the declared size interval. Non-trivial = at least one node returned rows; classes count empty inputs, empty results and NULL cells; distinct by spec hash.",
    );
    rep.assumptions = vec!["SQLite execution of the library's own rendering of each node (compatibility layer as in C08)".into(), "engine cells are converted to library values guided by the declared variant (0/1 for booleans, integral reals for integers, ISO text for dates)".into(), "a float cell within relative 1e-12 of a declared float bound is accepted (engine summation order)".into()];
    rep.legs.push(search(ctx, "C07", "nodes", ctx.cases(20_000, 25), findings, case_strategy, check_c07));
    for c in ["node:reduce:grouped", "node:reduce:global", "node:join:left", "node:join:full", "node:join:inner", "node:map+filter", "node_empty_result", "null_cell", "empty_input_table"] {
        rep.require_class(c, 30);
    }
    rep
}

pub fn run_c14(ctx: &Ctx, findings: &Findings) -> Report {
    let mut rep = Report::new(
        "C14",
        "exploration",
        "same generator as C07 with UNIQUE columns whose generated data honour the constraint (consecutive distinct values, NULLs allowed). For every node of the parsed relation and every field flagged Unique/PrimaryKey, the non-NULL cells of that column in the executed node result must be pairwise distinct. Non-trivial = a flagged column with >= 2 non-NULL rows on a non-table node; distinct by spec hash. values leg: literal lists (ints, floats, texts) with adjacent and non-adjacent repeats built with the Values builder; the column may be flagged unique only when the literals are pairwise distinct.",
    );
    rep.assumptions = vec!["SQLite execution of the library's own rendering of each node".into()];
    rep.legs.push(search(ctx, "C14", "unique", ctx.cases(20_000, 25), findings, case_strategy, check_c14));
    rep.legs.push(search(ctx, "C14", "values", ctx.cases(40_000, 25), findings, values_strategy, check_c14_values));
    rep.require_class("values_separated_duplicates", 1_000);
    rep.require_class("unique_flag_checked:map", 50);
    rep
}

pub fn replay_c08(leg: &str, spec: &J, st: &mut Stats) -> Result<Vec<Fail>, String> {
    if leg == "raw" {
        return Ok(check_c08_raw(&decode::<RawCase>(spec)?, st));
    }
    Ok(check_c08(&decode::<SqlCase>(spec)?, st))
}
pub fn replay_c07(leg: &str, spec: &J, st: &mut Stats) -> Result<Vec<Fail>, String> {
    let _ = leg;
    Ok(check_c07(&decode::<SqlCase>(spec)?, st))
}
pub fn replay_c14(leg: &str, spec: &J, st: &mut Stats) -> Result<Vec<Fail>, String> {
    if leg == "values" {
        return Ok(check_c14_values(&decode::<ValuesCase>(spec)?, st));
    }
    Ok(check_c14(&decode::<SqlCase>(spec)?, st))
}
