//! C01 — true sensitivity of every noised aggregate never exceeds the clip bound the noise was scaled by.
//! The pre-noise relation (input of the Map that adds the Gaussian term) is cut out of the rewritten plan and executed
//! on a database D and on D minus all rows of one privacy unit; per noised column the change, as a vector over groups,
//! must be at most C in Euclidean norm, C being the clip literal of the plan (cross-checked against sigma by C03).
use crate::ir;
use crate::props::dp::*;
use crate::props::sqlprops::{compile, render_relation, with_db, Compiled};
use crate::run::*;
use crate::safe::safe;
use crate::sqlx::db::*;
use crate::sqlx::exec::*;
use crate::sqlx::privacy::*;
use proptest::prelude::*;
use qrlew::differential_privacy::dp_event::DpEvent;
use serde::{Deserialize, Serialize};
use serde_json::{json, Value as J};
use std::collections::BTreeMap;

#[derive(Clone, Debug, Serialize, Deserialize)]
pub struct Case {
    pub schema: DpSchema,
    pub q: DpQuery,
    pub dp: DpSpec,
    pub unit_pick: u16,
    /// two-level aggregation templates (template, inner aggregate, outer aggregate) instead of `q`
    #[serde(default)]
    pub nested: Option<(u8, u8, u8)>,
}

pub fn nested_sql(t: u8, inner: u8, outer: u8) -> String {
    let agg = |i: u8, c: &str| match i % 4 {
        0 => format!("SUM({c})"),
        1 => format!("AVG({c})"),
        2 => format!("COUNT({c})"),
        _ => "COUNT(*)".to_string(),
    };
    match t % 5 {
        // inner grouping key not projected: one unit spreads over several inner groups
        0 => format!("SELECT {} AS r0 FROM (SELECT {} AS m FROM orders GROUP BY kind) AS q", agg(outer, "m"), agg(inner, "x")),
        1 => format!("SELECT {} AS r0 FROM (SELECT {} AS m FROM orders GROUP BY pk) AS q", agg(outer, "m"), agg(inner, "x")),
        // inner key projected and used as the outer (public) key
        2 => format!("SELECT k, {} AS r0 FROM (SELECT kind AS k, uid AS u, {} AS m FROM orders GROUP BY kind, uid) AS q GROUP BY k", agg(outer, "m"), agg(inner, "x")),
        // aggregation over a join, then re-aggregated
        3 => format!("SELECT {} AS r0 FROM (SELECT {} AS m FROM orders JOIN users ON orders.uid = users.id GROUP BY users.g) AS q", agg(outer, "m"), agg(inner, "x")),
        _ => format!("SELECT {} AS r0 FROM (SELECT {} AS m FROM items JOIN orders ON items.oid = orders.oid GROUP BY orders.kind) AS q", agg(outer, "m"), agg(inner, "y")),
    }
}

pub fn dp_small_strategy() -> BoxedStrategy<DpSpec> {
    (
        prop::sample::select(vec![0.1, 1.0, 10.0]),
        prop::sample::select(vec![1e-6, 1e-3]),
        prop::sample::select(vec![0.25, 0.5]),
        prop::sample::select(vec![1.0, 1.0, 2.0, 3.0, 5.0, 100.0]),
        prop::sample::select(vec![0.01, 0.1, 0.5, 1.0, 1.0]),
        1u64..6,
    )
        .prop_map(|(epsilon, delta, tau_share, max_mult, max_mult_share, max_groups)| DpSpec { epsilon, delta, tau_share, max_mult, max_mult_share, max_groups })
        .boxed()
}

pub fn strategy() -> BoxedStrategy<Case> {
    (
        schema_strategy(6, 16),
        query_strategy(vec![Group::None, Group::Public, Group::Public, Group::Private, Group::Both], true, true),
        dp_small_strategy(),
        any::<u16>(),
        proptest::option::weighted(0.15, (0u8..5, 0u8..4, 0u8..4)),
    )
        .prop_map(|(mut schema, q, dp, unit_pick, nested)| {
            // with key release in the plan the random source is a constant (see check): row-privacy ids would coincide
            if schema.pu_variant % 4 == 2 && matches!(q.group, Group::Private | Group::Both) {
                schema.pu_variant = 0;
            }
            Case { schema, q, dp, unit_pick, nested }
        })
        .boxed()
}

pub fn gaussian_multipliers(e: &DpEvent, out: &mut Vec<f64>) {
    match e {
        DpEvent::Gaussian { noise_multiplier } => out.push(*noise_multiplier),
        DpEvent::Composed { events } => events.iter().for_each(|x| gaussian_multipliers(x, out)),
        _ => {}
    }
}

pub fn epsilon_deltas(e: &DpEvent, out: &mut Vec<(f64, f64)>) {
    match e {
        DpEvent::EpsilonDelta { epsilon, delta } => out.push((*epsilon, *delta)),
        DpEvent::Composed { events } => events.iter().for_each(|x| epsilon_deltas(x, out)),
        _ => {}
    }
}

fn num(c: &Cell) -> f64 {
    match c {
        Cell::Int(i) => *i as f64,
        Cell::Real(f) => *f,
        _ => 0.0,
    }
}

/// rows -> (group key -> values of the given columns)
fn by_group(res: &QueryResult, val_cols: &[usize]) -> BTreeMap<String, Vec<f64>> {
    let mut m = BTreeMap::new();
    for row in &res.rows {
        let key: Vec<String> = row.iter().enumerate().filter(|(i, _)| !val_cols.contains(i)).map(|(_, c)| c.to_string()).collect();
        let vals: Vec<f64> = val_cols.iter().map(|i| num(&row[*i])).collect();
        // a key appearing twice would be a plan defect of another kind: values add up
        let e = m.entry(key.join("|")).or_insert_with(|| vec![0.0; val_cols.len()]);
        for (a, b) in e.iter_mut().zip(vals) {
            *a += b;
        }
    }
    m
}

pub fn remove_unit(schema: &DpSchema, rows: &Vec<Vec<Vec<Cell>>>, pick: u16) -> Option<(String, Vec<Vec<Vec<Cell>>>)> {
    let owners = schema.owners(rows);
    let mut units: Vec<String> = owners.iter().flatten().flatten().cloned().collect();
    units.sort();
    units.dedup();
    if units.is_empty() {
        return None;
    }
    let u = units[(pick as usize * units.len()) >> 16].clone();
    let out = rows
        .iter()
        .zip(owners.iter())
        .map(|(t, o)| t.iter().zip(o.iter()).filter(|(_, ow)| ow.as_ref() != Some(&u)).map(|(r, _)| r.clone()).collect())
        .collect();
    Some((u, out))
}

pub fn check(case: &Case, st: &mut Stats) -> Vec<Fail> {
    let mut fails = vec![];
    let db = case.schema.db();
    let mut r = case.q.render(&case.schema);
    if let Some((t, i, o)) = case.nested {
        r.sql = nested_sql(t, i, o);
    }
    st.eval();
    let rel = match compile(&r.sql, &db) {
        Compiled::Ok(rel) => rel,
        _ => {
            st.class("not_compiled");
            return fails;
        }
    };
    let rels = db.relations();
    let pu = case.schema.privacy_unit();
    let rw = match safe(|| rel.rewrite_with_differential_privacy(&rels, None, pu, case.dp.params())) {
        Ok(Ok(r)) => r,
        Ok(Err(_)) => {
            st.class("dp_refused");
            return fails;
        }
        Err(_) => {
            st.class("dp_panicked");
            return fails;
        }
    };
    if rw.dp_event().is_no_op() {
        st.class("rewritten_without_dp");
        return fails;
    }
    let an = ir::analyze(rw.relation());
    let aggs: Vec<&ir::NoiseMap> = an.noise_maps.iter().filter(|m| !m.is_threshold_count).collect();
    if aggs.is_empty() {
        st.class("no_noised_aggregate");
        return fails;
    }
    let rows = db.rows();
    let Some((unit, rows2)) = remove_unit(&case.schema, &rows, case.unit_pick) else {
        st.class("no_unit_in_data");
        return fails;
    };
    let mut mults = vec![];
    gaussian_multipliers(rw.dp_event(), &mut mults);
    // key release draws: a constant source (1e-300: +37 sigma, every key released on both databases; ties in the
    // contribution ranking resolve identically on both). Otherwise distinct draws so that row-privacy ids differ.
    let rng = if an.thresholds.is_empty() { RngMode::NearOneDistinct } else { RngMode::AlwaysRelease };
    let from_tag = match case.nested {
        Some((t, _, _)) => format!("nested{}", t % 5),
        None => format!("{:?}", case.q.from).to_lowercase(),
    };
    let group_tag = if case.nested.is_some() { "nested".to_string() } else { format!("{:?}", case.q.group).to_lowercase() };
    for nm in aggs {
        let Ok(sql) = render_relation(nm.input) else {
            st.class("render_panic");
            continue;
        };
        // the released key set is an output of the (separately accounted) key-release mechanism: it is computed on D
        // and held fixed for D minus the unit, the clip bound being the sensitivity of the aggregates given the keys
        let mut fixed_sql = sql.clone();
        let mut released: Vec<(String, Vec<String>, Vec<Vec<Cell>>)> = vec![];
        let mut ok = true;
        for (ti, t) in an.thresholds.iter().enumerate() {
            let name = qrlew::relation::Variant::name(t.node).to_string();
            if !sql.contains(&format!("\"{name}\" (\"")) {
                continue;
            }
            let Ok(ksql) = render_relation(t.node) else {
                ok = false;
                break;
            };
            let keys = with_db(|d| {
                d.set_rng(rng);
                d.load(&db, Some(&rows)).ok()?;
                d.query(&ksql).ok()
            });
            let Some(keys) = keys else {
                ok = false;
                break;
            };
            let tname = format!("__released_{ti}");
            match ir::replace_cte_body(&fixed_sql, &name, &format!("SELECT * FROM \"{tname}\"")) {
                Some(s2) => fixed_sql = s2,
                None => {
                    ok = false;
                    break;
                }
            }
            released.push((tname, keys.names.clone(), keys.rows.clone()));
        }
        if !ok {
            st.class("key_release_not_isolated");
            continue;
        }
        if !released.is_empty() {
            st.class("released_keys_held_fixed");
        }
        let run = |data: &Vec<Vec<Vec<Cell>>>| {
            with_db(|d| {
                d.set_rng(rng);
                if d.load(&db, Some(data)).is_err() {
                    return None;
                }
                for (n, c, r) in &released {
                    if d.load_raw(n, c, r).is_err() {
                        return None;
                    }
                }
                Some(d.query(&fixed_sql))
            })
        };
        let (Some(a), Some(b)) = (run(&rows), run(&rows2)) else {
            st.reject();
            continue;
        };
        let (a, b) = match (a, b) {
            (Ok(a), Ok(b)) => (a, b),
            (Err(e), _) | (_, Err(e)) => {
                st.class("engine_rejects_pre_noise_relation");
                let _ = e;
                continue;
            }
        };
        let val_cols: Vec<usize> = nm.cols.iter().filter_map(|c| a.names.iter().position(|n| *n == c.in_col)).collect();
        if val_cols.len() != nm.cols.len() {
            st.class("noised_column_not_in_input");
            continue;
        }
        let (ga, gb) = (by_group(&a, &val_cols), by_group(&b, &val_cols));
        st.class("pairs_executed");
        for (j, c) in nm.cols.iter().enumerate() {
            let mut d2 = 0.0;
            let mut ngroups = 0;
            for k in ga.keys().chain(gb.keys().filter(|k| !ga.contains_key(*k))) {
                let x = ga.get(k).map_or(0.0, |v| v[j]);
                let y = gb.get(k).map_or(0.0, |v| v[j]);
                if x != y {
                    ngroups += 1;
                }
                d2 += (x - y) * (x - y);
            }
            let change = d2.sqrt();
            // the bound: the clip literal of the plan; when the plan has none for this column, sigma over the smallest
            // recorded multiplier (the sensitivity the recorded event claims)
            let (bound, src) = match ir::clip_under(nm.input, &c.in_col) {
                Some(cl) => (cl, "clip_literal"),
                None => {
                    let m = mults.iter().cloned().fold(f64::INFINITY, f64::min);
                    if m.is_finite() && m > 0.0 {
                        (c.sigma / m, "sigma_over_recorded_multiplier")
                    } else {
                        st.class("no_bound_for_column");
                        continue;
                    }
                }
            };
            st.class(&format!("bound_from:{src}"));
            st.class("columns_compared");
            if change > 0.0 {
                st.class("column_changed");
            }
            if change >= 0.999 * bound && bound > 0.0 {
                st.class("change_at_bound_clipping_active");
            }
            if ngroups >= 2 {
                st.class("change_over_several_groups");
            }
            if change > bound * (1.0 + 1e-9) + 1e-9 {
                let kind = if c.in_col.starts_with("_COUNT_") { "count" } else { "sum" };
                fails.push(Fail::new(
                    format!("C01|sensitivity_exceeds_clip|{kind}|{from_tag}|{group_tag}|pu{}", case.schema.pu_variant % 4),
                    format!(
                        "query: {}\nnoised column {} (sigma {}), clip bound C = {bound} ({src}); removing unit {unit} changes the pre-noise column {} by {change} in L2 over {ngroups} group(s)\nD: {}\nD minus unit: {}\npre-noise sql: {sql}",
                        r.sql,
                        c.out_col,
                        c.sigma,
                        c.in_col,
                        show_rows(&a.rows, 8),
                        show_rows(&b.rows, 8)
                    ),
                ));
                return fails;
            }
            if change > 0.0 {
                st.nontrivial(hash_json(&(case, j)));
            }
        }
        st.sample(|| json!({"sql": r.sql, "removed_unit": unit, "pre_noise_D": show_rows(&a.rows, 4), "pre_noise_D_minus_unit": show_rows(&b.rows, 4), "clips": an.clips.iter().map(|c| (c.col.clone(), c.c)).collect::<Vec<_>>() }));
    }
    st.class(&format!("from:{from_tag}"));
    st.class(&format!("group:{group_tag}"));
    st.class(&format!("pu_variant:{}", case.schema.pu_variant % 4));
    fails
}

pub fn run(ctx: &Ctx, findings: &Findings) -> Report {
    let mut rep = Report::new(
        "C01",
        "exploration",
        "schema users <- orders <- items (+ public table) with generated measure ranges (negative, zero-containing, single value, nullable), 1-6 units, 0-16 orders, dangling foreign keys, four privacy-unit layouts; aggregation queries (COUNT/SUM/AVG/VARIANCE/STDDEV, DISTINCT, expressions, filters, joins along the unit path), ungrouped, grouped by public keys, private keys or both; DpParameters with multiplicity 1-100 and share 0.01-1 (so that units routinely exceed the assumed multiplicity and clipping is active), 1-5 groups per unit. The pre-noise relation is executed on D and on D minus one unit (every row owned by it in every table); per noised column the L2 norm over groups of the difference must be <= the clip literal C of the plan (1e-9 relative). Non-trivial = the column changed; distinct by spec hash and column.",
    );
    rep.assumptions = vec![
        "neighbouring databases are D and D minus one privacy unit (the add/remove relation the clip bound C is the sensitivity for)".into(),
        "C is read from the plan (sqrt(norm2)/C inside the scale factor); when a column has no clip literal the bound falls back to sigma / smallest recorded Gaussian multiplier; C03 ties C to sigma and the event".into(),
        "with key release in the plan random() is the constant 1e-300 on both databases (every key released, identical tie-breaking); otherwise distinct draws near 1".into(),
    ];
    rep.legs.push(search(ctx, "C01", "neighbours", ctx.cases(4_000, 25), findings, strategy, check));
    rep.require_class("columns_compared", 2_000);
    rep.require_class("column_changed", 800);
    rep.require_class("change_at_bound_clipping_active", 50);
    rep
}

pub fn replay(leg: &str, spec: &J, st: &mut Stats) -> Result<Vec<Fail>, String> {
    let _ = leg;
    Ok(check(&decode::<Case>(spec)?, st))
}
