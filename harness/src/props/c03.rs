//! C03 — the privacy event never under-reports: every noise term of the rewritten plan is matched by a recorded entry
//! whose multiplier is at most sigma/C, key release is recorded with at least the (epsilon, delta) its sigma and tau
//! amount to, and the mechanisms of one DP aggregation fit, by the classical Gaussian calibration and basic
//! composition, the (epsilon, delta) given to the compiler.
use crate::ir;
use crate::props::c01::{epsilon_deltas, gaussian_multipliers};
use crate::props::dp::*;
use crate::props::sqlprops::{compile, Compiled};
use crate::run::*;
use crate::safe::safe;
use crate::sqlx::privacy::*;
use proptest::prelude::*;
use serde::{Deserialize, Serialize};
use serde_json::{json, Value as J};
use statrs::distribution::{ContinuousCDF, Normal};

#[derive(Clone, Debug, Serialize, Deserialize)]
pub struct Case {
    pub schema: DpSchema,
    pub q: DpQuery,
    pub dp: DpSpec,
}

pub fn strategy() -> BoxedStrategy<Case> {
    (schema_strategy(3, 3), query_strategy(vec![Group::None, Group::Public, Group::Private, Group::Private, Group::Both], true, true), dp_strategy())
        .prop_map(|(schema, q, dp)| Case { schema, q, dp })
        .boxed()
}

/// classical calibration: sigma / sensitivity for (epsilon, delta)
pub fn classical_multiplier(eps: f64, delta: f64) -> f64 {
    (2.0 * (1.25 / delta).ln()).sqrt() / eps
}

/// epsilon a Gaussian mechanism of multiplier m affords at a given delta (classical calibration inverted)
pub fn classical_epsilon(m: f64, delta: f64) -> f64 {
    (2.0 * (1.25 / delta).ln()).sqrt() / m
}

pub fn phi_inv(p: f64) -> f64 {
    Normal::new(0.0, 1.0).unwrap().inverse_cdf(p)
}

pub fn phi(x: f64) -> f64 {
    Normal::new(0.0, 1.0).unwrap().cdf(x)
}

const TOL: f64 = 1e-9;

/// least total epsilon (classical calibration) of Gaussian mechanisms with the given multipliers over all splits of
/// delta among them: Lagrange condition delta_j * sqrt(2 ln(1.25/delta_j)) * m_j = t, solved by nested bisection
pub fn min_epsilon_sum(ms: &[f64], delta: f64) -> (f64, Vec<f64>) {
    let s = |d: f64| (2.0 * (1.25 / d).ln()).sqrt();
    // g(d) = d * s(d) is increasing on (0, 0.75)
    let solve = |target: f64| -> f64 {
        let (mut lo, mut hi) = (0.0f64, delta.min(0.7));
        if hi * s(hi) <= target {
            return hi;
        }
        for _ in 0..200 {
            let mid = 0.5 * (lo + hi);
            if mid > 0.0 && mid * s(mid) < target {
                lo = mid;
            } else {
                hi = mid;
            }
        }
        0.5 * (lo + hi)
    };
    let total = |t: f64| -> f64 { ms.iter().map(|m| solve(t / m)).sum() };
    let mmax = ms.iter().cloned().fold(0.0, f64::max);
    let (mut lo, mut hi) = (0.0f64, mmax * delta.min(0.7) * s(delta.min(0.7)));
    for _ in 0..200 {
        let mid = 0.5 * (lo + hi);
        if total(mid) < delta {
            lo = mid;
        } else {
            hi = mid;
        }
    }
    let ds: Vec<f64> = ms.iter().map(|m| solve(lo / m)).collect();
    let best: f64 = ms.iter().zip(ds.iter()).map(|(m, d)| s(*d) / m).sum();
    // the even split is always admissible: never report more than it costs
    let even: f64 = ms.iter().map(|m| s(delta / ms.len() as f64) / m).sum();
    if even < best {
        (even, vec![delta / ms.len() as f64; ms.len()])
    } else {
        (best, ds)
    }
}

pub struct Prepared {
    pub sql: String,
    pub rw: qrlew::rewriting::RelationWithDpEvent,
}

pub fn prepare(schema: &DpSchema, q: &DpQuery, dp: &DpSpec, st: &mut Stats) -> Option<Prepared> {
    prepare_sql(schema, &q.render(schema).sql, dp, st)
}

pub fn prepare_sql(schema: &DpSchema, sql: &str, dp: &DpSpec, st: &mut Stats) -> Option<Prepared> {
    let db = schema.db();
    let rel = match compile(sql, &db) {
        Compiled::Ok(rel) => rel,
        _ => {
            st.class("not_compiled");
            return None;
        }
    };
    let rels = db.relations();
    let pu = schema.privacy_unit();
    match safe(|| rel.rewrite_with_differential_privacy(&rels, None, pu, dp.params())) {
        Ok(Ok(rw)) => Some(Prepared { sql: sql.to_string(), rw }),
        Ok(Err(_)) => {
            st.class("dp_refused");
            None
        }
        Err(_) => {
            st.class("dp_panicked");
            None
        }
    }
}

#[derive(Clone, Debug, Serialize, Deserialize)]
pub struct NestedCase {
    pub schema: DpSchema,
    pub dp: DpSpec,
    pub template: u8,
    pub inner: u8,
    pub outer: u8,
    pub inner_private_key: bool,
}

pub fn nested_strategy() -> BoxedStrategy<NestedCase> {
    (schema_strategy(3, 3), dp_strategy(), 0u8..8, 0u8..5, 0u8..5, prop::bool::weighted(0.3))
        .prop_map(|(mut schema, dp, template, inner, outer, inner_private_key)| {
            // the sub-queries read orders: a layout that protects it
            if schema.pu_variant % 4 == 2 {
                schema.pu_variant = 0;
            }
            NestedCase { schema, dp, template, inner, outer, inner_private_key }
        })
        .boxed()
}

impl NestedCase {
    pub fn sql(&self) -> String {
        let agg = |i: u8, col: &str| match i % 5 {
            0 => format!("SUM({col})"),
            1 => "COUNT(*)".to_string(),
            2 => format!("AVG({col})"),
            3 => format!("COUNT({col})"),
            _ => format!("VARIANCE({col})"),
        };
        let key = if self.inner_private_key { "pk" } else { "kind" };
        let inner = format!("SELECT {key} AS k, {} AS t FROM orders GROUP BY {key}", agg(self.inner, "x"));
        match self.template % 8 {
            // DP sub-query joined back with the protected table, aggregated again
            0 => format!("WITH s AS ({inner}) SELECT {} AS q FROM s JOIN orders AS o ON s.k = o.{key} WHERE s.t > 1", agg(self.outer, "o.x")),
            1 => format!("WITH s AS ({inner}) SELECT o.kind AS kind, {} AS q FROM orders AS o JOIN s ON s.k = o.{key} GROUP BY o.kind", agg(self.outer, "o.x")),
            // two DP sub-queries joined
            2 => format!("WITH s AS ({inner}), u AS (SELECT kind AS k2, {} AS m FROM orders GROUP BY kind) SELECT k, t, m FROM s JOIN u ON s.k = u.k2", agg(self.outer, "x")),
            // DP sub-query post-processed
            3 => format!("SELECT k, (t * 2) AS t2 FROM ({inner}) AS s WHERE t > 0"),
            // union of two DP sub-queries
            4 => format!("{inner} UNION SELECT kind AS k, {} AS t FROM orders GROUP BY kind", agg(self.outer, "x")),
            // self-join of a DP sub-query
            6 => format!("WITH s AS ({inner}) SELECT a.k AS k, a.t AS t, b.t AS t2 FROM s AS a JOIN s AS b ON a.k = b.k"),
            // self-join of a protected table
            7 => format!("SELECT a.x AS x1, b.x AS x2, a.{key} AS k FROM orders AS a JOIN orders AS b ON a.oid = b.oid WHERE b.x > {}", self.outer),
            // DP sub-query joined with the unit table
            _ => format!("WITH s AS ({inner}) SELECT {} AS q FROM users AS us JOIN orders AS o ON us.id = o.uid JOIN s ON s.k = o.{key}", agg(self.outer, "us.a")),
        }
    }
}

pub fn check_nested(case: &NestedCase, st: &mut Stats) -> Vec<Fail> {
    st.eval();
    let sql = case.sql();
    let Some(p) = prepare_sql(&case.schema, &sql, &case.dp, st) else {
        st.class(&format!("template_rejected:{}", case.template % 8));
        if std::env::var("QV_DEBUG").is_ok() {
            let db = case.schema.db();
            let why = match compile(&sql, &db) {
                Compiled::Ok(rel) => match safe(|| rel.rewrite_with_differential_privacy(&db.relations(), None, case.schema.privacy_unit(), case.dp.params())) {
                    Ok(Ok(_)) => "ok".to_string(),
                    Ok(Err(e)) => format!("refused: {e}"),
                    Err(p) => format!("panic: {}", p.file_line()),
                },
                Compiled::Err(e) => format!("not compiled: {e}"),
                Compiled::Panic(p) => format!("compile panic: {}", p.file_line()),
            };
            eprintln!("REJ t{} {why} :: {sql}", case.template % 8);
        }
        return vec![];
    };
    st.class(&format!("template:{}", case.template % 8));
    let f = check_prepared(&p, &case.dp, false, hash_json(case), st);
    f.into_iter().map(|mut x| { x.key = format!("{}|nested", x.key); x }).collect()
}

pub fn check(case: &Case, st: &mut Stats) -> Vec<Fail> {
    st.eval();
    let Some(p) = prepare(&case.schema, &case.q, &case.dp, st) else { return vec![] };
    check_prepared(&p, &case.dp, true, hash_json(case), st)
}

/// `one_aggregation`: the plan holds a single DP aggregation, whose mechanisms must fit the (epsilon, delta) given
pub fn check_prepared(p: &Prepared, dp: &DpSpec, one_aggregation: bool, case_hash: u64, st: &mut Stats) -> Vec<Fail> {
    let mut fails = vec![];
    struct C<'a> {
        dp: &'a DpSpec,
    }
    let case = C { dp };
    let ev = p.rw.dp_event().clone();
    let an = ir::analyze(p.rw.relation());
    let (mut rec_g, mut rec_ed) = (vec![], vec![]);
    gaussian_multipliers(&ev, &mut rec_g);
    epsilon_deltas(&ev, &mut rec_ed);
    let cu = case.dp.max_groups as f64;
    let detail = |what: String| {
        format!(
            "{what}\nquery: {}\nparameters: {:?}\nevent: {}\nnoise terms: {:?}\nthresholds: {:?}\nclips: {:?}",
            p.sql,
            case.dp,
            ev,
            an.noise_maps.iter().flat_map(|m| m.cols.iter().map(|c| (c.in_col.clone(), c.sigma))).collect::<Vec<_>>(),
            an.thresholds.iter().map(|t| t.tau).collect::<Vec<_>>(),
            an.clips
        )
    };
    if !an.unexplained_random.is_empty() {
        fails.push(Fail::new("C03|randomised_expression_of_unknown_shape", detail(format!("random() used in an expression that is neither a Gaussian noise term nor a bare draw: {:?}", an.unexplained_random))));
        return fails;
    }
    // ---- aggregates: actual multipliers sigma / C
    let mut actual: Vec<(String, f64)> = vec![];
    let mut degenerate = false;
    for nm in an.noise_maps.iter().filter(|m| !m.is_threshold_count) {
        for c in &nm.cols {
            match ir::clip_under(nm.input, &c.in_col) {
                Some(cl) if cl > 0.0 && cl < f64::MAX && c.sigma < f64::MAX => actual.push((c.in_col.clone(), c.sigma / cl)),
                Some(cl) if cl >= f64::MAX || c.sigma >= f64::MAX => {
                    // sigma saturates at f64::MAX: the ratio carries no information
                    st.class("saturated_sigma_or_clip");
                    degenerate = true;
                    let _ = cl;
                }
                Some(_) => {
                    // C = 0: the column is identically 0
                    st.class("zero_clip");
                    degenerate = true;
                }
                None => {
                    if c.sigma == 0.0 {
                        st.class("zero_sigma_without_clip");
                    } else {
                        st.class("no_clip_literal");
                    }
                    degenerate = true;
                }
            }
        }
    }
    let n_thr_noise = an.noise_maps.iter().filter(|m| m.is_threshold_count).count();
    if actual.is_empty() && n_thr_noise == 0 {
        st.class(if ev.is_no_op() { "no_mechanism_no_event" } else { "event_without_mechanism" });
        return fails;
    }
    st.class("with_mechanisms");
    // injective matching recorded -> actual with recorded <= actual: sort both, the i-th smallest actual needs at least
    // i + 1 recorded entries not larger than it
    let _ = degenerate;
    {
        let mut a: Vec<f64> = actual.iter().map(|x| x.1).collect();
        a.sort_by(|x, y| x.partial_cmp(y).unwrap());
        let mut g = rec_g.clone();
        g.sort_by(|x, y| x.partial_cmp(y).unwrap());
        if g.len() < a.len() {
            fails.push(Fail::new("C03|mechanism_not_recorded|gaussian", detail(format!("{} noised aggregate columns, {} Gaussian entries in the event", a.len(), g.len()))));
            return fails;
        }
        for (i, ai) in a.iter().enumerate() {
            let fit = g.iter().filter(|x| **x <= ai * (1.0 + TOL)).count();
            if fit < i + 1 {
                fails.push(Fail::new(
                    "C03|multiplier_overstated",
                    detail(format!("actual multipliers sigma/C (sorted) {a:?}; recorded {g:?}: no assignment with recorded <= actual (the event claims more noise than applied)")),
                ));
                return fails;
            }
        }
        st.class("gaussian_entries_matched");
    }
    // ---- key release
    let mut thr_eps = 0.0;
    let mut thr_delta = 0.0;
    if n_thr_noise > 0 || !an.thresholds.is_empty() {
        if n_thr_noise != an.thresholds.len() {
            fails.push(Fail::new("C03|key_release_shape", detail(format!("{} noised distinct-unit counts but {} threshold filters", n_thr_noise, an.thresholds.len()))));
            return fails;
        }
        if rec_ed.len() < n_thr_noise {
            fails.push(Fail::new("C03|mechanism_not_recorded|key_release", detail(format!("{} key releases, {} EpsilonDelta entries", n_thr_noise, rec_ed.len()))));
            return fails;
        }
        // each key release against the weakest recorded entry still unused (entries sorted by epsilon)
        let mut ed = rec_ed.clone();
        ed.sort_by(|x, y| x.0.partial_cmp(&y.0).unwrap());
        let sigmas: Vec<f64> = an.noise_maps.iter().filter(|m| m.is_threshold_count).map(|m| m.cols[0].sigma).collect();
        for (i, (sig, thr)) in sigmas.iter().zip(an.thresholds.iter()).enumerate() {
            let (e, d) = ed[i];
            // epsilon the applied sigma affords at the recorded delta, sensitivity sqrt(Cu)
            let eps_used = cu.sqrt() * (2.0 * (1.25 / d).ln()).sqrt() / sig;
            // probability that a key held by one unit capped to Cu groups is released
            let delta_used = 1.0 - phi((thr.tau - 1.0) / sig).powf(cu);
            if eps_used > e * (1.0 + TOL) {
                fails.push(Fail::new("C03|key_release_epsilon_understated", detail(format!("key release noise sigma {sig} with Cu = {cu} affords epsilon {eps_used} at delta {d}; recorded epsilon {e}"))));
                return fails;
            }
            if delta_used > d * (1.0 + 1e-6) + 1e-15 {
                fails.push(Fail::new("C03|key_release_delta_understated", detail(format!("threshold {} with sigma {sig}, Cu = {cu} releases a single-unit key with probability {delta_used}; recorded delta {d}", thr.tau))));
                return fails;
            }
            thr_eps += e;
            thr_delta += d;
        }
        st.class("key_release_matched");
    }
    // ---- budget of the aggregation: basic composition
    if one_aggregation && !actual.is_empty() {
        let k = actual.len() as f64;
        let delta_left = case.dp.delta - thr_delta;
        if delta_left <= 0.0 {
            fails.push(Fail::new("C03|budget_exceeded|delta_spent_by_key_release", detail(format!("key release is recorded with delta {thr_delta} of {}", case.dp.delta))));
            return fails;
        }
        let _ = k;
        let ms: Vec<f64> = actual.iter().map(|x| x.1).collect();
        let (eps_sum, djs) = min_epsilon_sum(&ms, delta_left);
        let dj = format!("{djs:?}");
        if eps_sum + thr_eps > case.dp.epsilon * (1.0 + 1e-6) {
            fails.push(Fail::new(
                format!("C03|budget_exceeded|{}", if actual.len() > 1 { "several_aggregates" } else { "one_aggregate" }),
                detail(format!(
                    "{} Gaussian mechanisms with multipliers {:?} cost at least epsilon {eps_sum} (best split of the remaining delta: {dj}); plus key release {thr_eps}: more than the budget epsilon {}",
                    actual.len(),
                    actual.iter().map(|x| x.1).collect::<Vec<_>>(),
                    case.dp.epsilon
                )),
            ));
            return fails;
        }
        st.class("budget_checked");
        if actual.len() >= 2 {
            st.class("several_aggregates");
        }
    }
    if actual.len() + n_thr_noise >= 2 {
        st.nontrivial(case_hash);
    }
    st.class(&format!("mechanisms:{}", (actual.len() + n_thr_noise).min(6)));
    st.sample(|| json!({"sql": p.sql, "event": format!("{ev}"), "actual_multipliers": actual, "recorded_gaussian": rec_g, "recorded_epsilon_delta": rec_ed, "tau": an.thresholds.iter().map(|t| t.tau).collect::<Vec<_>>()}));
    fails
}

pub fn run(ctx: &Ctx, findings: &Findings) -> Report {
    let mut rep = Report::new(
        "C03",
        "exploration",
        "aggregation queries (1-3 aggregates of COUNT/SUM/AVG/VARIANCE/STDDEV, DISTINCT splits, ungrouped / public keys / private keys / both, joins) over generated schemas and privacy-unit layouts x DpParameters (epsilon 1e-3..10, delta 1e-12..0.1, key-release share 0.1..0.9, multiplicity 1..100 with share 0.01..1, 1..7 groups per unit). From the rewritten plan: every sigma literal, its clip literal C, every tau literal; from the event: Gaussian and EpsilonDelta entries. Non-trivial = at least two randomised mechanisms in the plan; distinct by spec hash.",
    );
    rep.assumptions = vec![
        "the classical Gaussian calibration sigma = S sqrt(2 ln(1.25/delta)) / epsilon is the yardstick named by the property (also for epsilon >= 1, where the library uses it too)".into(),
        "delta of a key release = probability that a key held by one unit (capped to Cu groups) passes the threshold: 1 - Phi((tau-1)/sigma)^Cu".into(),
        "budget check splits the remaining delta evenly over the aggregate mechanisms and sums the epsilons they afford".into(),
    ];
    rep.legs.push(search(ctx, "C03", "event_vs_plan", ctx.cases(20_000, 20), findings, strategy, check));
    rep.legs.push(search(ctx, "C03", "nested", ctx.cases(6_000, 20), findings, nested_strategy, check_nested));
    rep.require_class("gaussian_entries_matched", 4_000);
    rep.require_class("template:0", 100);
    rep.require_class("template:2", 30);
    rep.require_class("template:4", 100);
    rep.require_class("key_release_matched", 1_500);
    rep.require_class("several_aggregates", 1_500);
    rep
}

pub fn replay(leg: &str, spec: &J, st: &mut Stats) -> Result<Vec<Fail>, String> {
    if leg == "nested" {
        return Ok(check_nested(&decode::<NestedCase>(spec)?, st));
    }
    Ok(check(&decode::<Case>(spec)?, st))
}
