//! C12 — type conversions are value-preserving injections within the converted type.
use crate::member::{lax, pair_class, strict, type_tag, witness_cause, Tri};
use crate::run::*;
use crate::safe::safe;
use crate::spec::*;
use proptest::prelude::*;
use qrlew::data_type::value::{Value, Variant as _};
use qrlew::data_type::injection::{InjectInto as _, Injection as _};
use qrlew::data_type::{DataType, Variant as _};
use serde::{Deserialize, Serialize};
use serde_json::{json, Value as J};

#[derive(Clone, Debug, Serialize, Deserialize)]
pub struct ConvSpec {
    pub a: TypeSpec,
    pub picks: Vec<u16>,
}

fn full_int() -> TypeSpec {
    TypeSpec::Int(vec![[i64::MIN, i64::MAX]])
}
fn full_float() -> TypeSpec {
    TypeSpec::Float(vec![[f64::MIN, f64::MAX]])
}
fn full_text() -> TypeSpec {
    TypeSpec::Text(vec![["\u{0}".to_string(), "\u{10FFFF}".to_string()]])
}
fn full_bool() -> TypeSpec {
    TypeSpec::Bool(vec![false, true])
}

thread_local! {
    /// set by `retarget` when the target struct lacks a field of the source
    static DROPPED: std::cell::Cell<bool> = std::cell::Cell::new(false);
}

/// Choose a conversion target with the same structure as `t`, each leaf moved to a (possibly different) variant
pub fn retarget(t: &TypeSpec, p: &mut Picks, top: bool) -> TypeSpec {
    let r = match t {
        TypeSpec::Bool(_) => match p.idx(5) {
            0 => full_int(),
            1 => full_float(),
            2 => full_text(),
            3 => TypeSpec::Int(vec![[0, 1]]),
            _ => full_bool(),
        },
        TypeSpec::Int(v) => match p.idx(7) {
            0 | 1 => full_float(),
            2 => full_text(),
            3 => full_bool(),
            4 => full_int(),
            5 => {
                // a specific superset in the float variant
                let lo = v.iter().map(|x| x[0]).min().unwrap_or(0);
                let hi = v.iter().map(|x| x[1]).max().unwrap_or(0);
                TypeSpec::Float(vec![[lo as f64 - 1.0, hi as f64 + 1.0]])
            }
            _ => TypeSpec::Int(vec![[-100, 100]]),
        },
        TypeSpec::Float(_) => match p.idx(6) {
            0 | 1 => full_int(),
            2 => full_text(),
            3 => full_bool(),
            4 => TypeSpec::Int(vec![[-1000, 1000]]),
            _ => full_float(),
        },
        TypeSpec::Text(_) => match p.idx(3) {
            0 => TypeSpec::Bytes,
            _ => full_text(),
        },
        TypeSpec::Date(_) => match p.idx(3) {
            0 => TypeSpec::DateTime(vec![[i64::MIN, i64::MAX]]),
            1 => full_text(),
            _ => TypeSpec::Date(vec![[i32::MIN, i32::MAX]]),
        },
        TypeSpec::DateTime(_) => match p.idx(3) {
            0 => TypeSpec::Date(vec![[i32::MIN, i32::MAX]]),
            1 => full_text(),
            _ => TypeSpec::DateTime(vec![[i64::MIN, i64::MAX]]),
        },
        TypeSpec::Time(_) => match p.idx(2) {
            0 => full_text(),
            _ => TypeSpec::Time(vec![[0, 86399]]),
        },
        TypeSpec::Duration(_) => match p.idx(2) {
            0 => full_text(),
            _ => TypeSpec::Duration(vec![[-i64::MAX, i64::MAX]]),
        },
        TypeSpec::Optional(inner) => TypeSpec::Optional(Box::new(retarget(inner, p, false))),
        TypeSpec::Struct(fs) => {
            let mut out: Vec<(String, TypeSpec)> = dedup_names(fs).iter().map(|(n, t)| (n.clone(), retarget(t, p, false))).collect();
            // sometimes the target lacks the last field of the source (extra source fields pass through)
            if out.len() >= 2 && p.chance(1, 5) {
                out.pop();
                DROPPED.with(|d| d.set(true));
            }
            TypeSpec::Struct(out)
        }
        TypeSpec::Union(fs) => TypeSpec::Union(fs.iter().map(|(n, t)| (n.clone(), retarget(t, p, false))).collect()),
        TypeSpec::List(inner, s) => TypeSpec::List(Box::new(retarget(inner, p, false)), *s),
        TypeSpec::Set(inner, s) => TypeSpec::Set(Box::new(retarget(inner, p, false)), *s),
        TypeSpec::Array(inner, s) => TypeSpec::Array(Box::new(retarget(inner, p, false)), s.clone()),
        other => other.clone(),
    };
    if top && !matches!(r, TypeSpec::Optional(_)) && p.chance(1, 8) {
        TypeSpec::Optional(Box::new(r))
    } else {
        r
    }
}

pub fn strategy() -> impl Strategy<Value = ConvSpec> {
    (
        prop_oneof![70 => relational_type(), 30 => lifted_type(2)],
        picks_strategy(40),
    )
        .prop_map(|(a, picks)| ConvSpec { a, picks })
}

/// first word of a rendered type: `float{19}` -> float, `option(str)` -> option, `str[a b]` -> str
fn head_word(s: &str) -> String {
    let s = s.trim();
    if s.starts_with('∅') {
        return "empty".into();
    }
    if s.starts_with('{') || s.starts_with('(') {
        return "struct_or_unit".into();
    }
    let w: String = s.chars().take_while(|c| c.is_ascii_alphabetic() || *c == '_').collect();
    if w.is_empty() {
        "value".into()
    } else {
        w
    }
}

/// classify a conversion error message by what the library says failed (root-cause key)
pub fn err_class(msg: &str) -> String {
    if let Some(i) = msg.find("No injection found from ") {
        let rest = &msg[i + "No injection found from ".len()..];
        if let Some(j) = rest.rfind(" into ") {
            return format!("no_injection:{}->{}", head_word(&rest[..j]), head_word(&rest[j + 6..]));
        }
    }
    if msg.contains("ArgumentOutOfRange") || msg.contains("not in") {
        if let Some(j) = msg.rfind(" not in ") {
            return format!("out_of_range:{}", head_word(&msg[j + 8..]));
        }
        return "out_of_range".into();
    }
    if msg.contains("SetOutOfRange") {
        return "set_out_of_range".into();
    }
    let w: String = msg.chars().take_while(|c| *c != ':').take(30).collect();
    format!("other:{w}")
}

fn short(t: &DataType) -> String {
    let s = t.to_string();
    if s.chars().count() > 240 {
        let h: String = s.chars().take(240).collect();
        format!("{h}…")
    } else {
        s
    }
}

pub fn check(spec: &ConvSpec, st: &mut Stats) -> Vec<Fail> {
    let mut fails = vec![];
    let mut p = Picks::new(&spec.picks);
    DROPPED.with(|d| d.set(false));
    let sb = retarget(&spec.a, &mut p, true);
    let dropped = DROPPED.with(|d| d.get());
    let (a, b) = match safe(|| (spec.a.to_data_type(), sb.to_data_type())) {
        Ok(x) => x,
        Err(_) => {
            st.reject();
            return fails;
        }
    };
    st.eval();
    let pc = if dropped { format!("{}+target_lacks_field", pair_class(&a, &b)) } else { pair_class(&a, &b) };
    if dropped {
        st.class("target_lacks_source_field");
    }
    let conv = match safe(|| a.into_data_type(&b)) {
        Ok(Ok(t)) => t,
        Ok(Err(_)) => {
            st.class("conversion_refused");
            return fails;
        }
        Err(_) => {
            st.oracle_panic();
            st.class("conversion_panicked");
            return fails;
        }
    };
    st.class("conversion_accepted");
    st.class(&format!("pair:{pc}"));
    let mut vals: Vec<Value> = vec![];
    for _ in 0..3 {
        if let Some(v) = spec.a.value_in(&mut p) {
            if let Ok(v) = safe(|| v.to_value()) {
                if strict(&a, &v) == Tri::Yes && !vals.iter().any(|x| x == &v) {
                    vals.push(v);
                }
            }
        }
    }
    // for row types: a value that differs from the first one in exactly one field
    if let (TypeSpec::Struct(fs), Some(Value::Struct(v0))) = (&spec.a, vals.first().cloned()) {
        let fs = dedup_names(fs);
        if !fs.is_empty() && fs.len() == v0.fields().len() {
            let k = p.idx(fs.len() * 2).min(fs.len() - 1); // biased to the last field
            let k = fs.len() - 1 - (fs.len() - 1 - k).min(fs.len() - 1);
            if let Some(nv) = fs[k].1.value_in(&mut p) {
                if let Ok(nv) = safe(|| nv.to_value()) {
                    let mut fields: Vec<(String, std::sync::Arc<Value>)> = v0.fields().to_vec();
                    fields[k].1 = std::sync::Arc::new(nv);
                    let v = Value::Struct(qrlew::data_type::value::Struct::new(fields));
                    if strict(&a, &v) == Tri::Yes && !vals.iter().any(|x| x == &v) {
                        vals.push(v);
                        st.class("struct_one_field_variant");
                    }
                }
            }
        }
    }
    let mut images: Vec<(Value, Value)> = vec![];
    let inj = safe(|| a.inject_into(&b));
    for v in &vals {
        // two value-level paths: the injection built for (A -> B), and Value::as_data_type (domain = the value's own type)
        let via_inj = match &inj {
            Ok(Ok(i)) => Some(safe(|| i.value(v).map_err(|e| e.to_string()))),
            _ => None,
        };
        let via_asdt = safe(|| v.as_data_type(&b).map_err(|e| e.to_string()));
        for (path, r) in [("inj", via_inj), ("asdt", Some(via_asdt))] {
            let Some(r) = r else { continue };
            st.eval();
            let w = match r {
                Ok(Ok(w)) => w,
                Ok(Err(e)) => {
                    fails.push(Fail::new(
                        format!("C12|value_refused|{path}|{}", err_class(&e)),
                        format!("A={} converts into B={} (image {}) but the value v={v} of A is refused ({path}): {e}", short(&a), short(&b), short(&conv)),
                    ));
                    continue;
                }
                Err(pn) => {
                    fails.push(Fail::new(
                        format!("C12|value_panic|{path}|{}|{}", pn.file_line(), err_class(&pn.msg)),
                        format!("A={} into B={}: converting v={v} ({path}) panicked at {}: {}", short(&a), short(&b), pn.loc, pn.msg),
                    ));
                    continue;
                }
            };
            // image lies in the converted type
            if lax(&conv, &w) == Tri::No {
                fails.push(Fail::new(
                    format!("C12|image_outside|{path}|{pc}|{}", witness_cause(v)),
                    format!("A={} into B={} gives {} which does not contain the image w={w} ({path}) of v={v}", short(&a), short(&b), short(&conv)),
                ));
            }
            // round trip
            if let Ok(Ok(back)) = safe(|| w.as_data_type(&a)) {
                st.class("round_trip_evaluated");
                let same = back == *v || crate::member::unwrap_some(&back).map_or(false, |x| Some(x) == crate::member::unwrap_some(v));
                if !same {
                    fails.push(Fail::new(
                        format!("C12|round_trip|{path}|{pc}|{}", witness_cause(v)),
                        format!("A={} into B={}: v={v} -> w={w} -> back={back}", short(&a), short(&b)),
                    ));
                }
            }
            if path == "inj" {
                images.push((v.clone(), w));
            }
        }
    }
    // injectivity
    for i in 0..images.len() {
        for j in (i + 1)..images.len() {
            st.eval();
            if images[i].1 == images[j].1 {
                fails.push(Fail::new(
                    format!("C12|not_injective|inj|{pc}|{}", witness_cause(&images[i].0)),
                    format!(
                        "A={} into B={}: distinct values {} and {} both convert to {}",
                        short(&a),
                        short(&b),
                        images[i].0,
                        images[j].0,
                        images[i].1
                    ),
                ));
            }
        }
    }
    if images.len() >= 2 && type_tag(&a) != "any" {
        st.nontrivial(hash_json(spec));
        if pc.starts_with("prim:") || pc.starts_with("nested:prim:") || pc.contains("mixed:prim/optional") {
            st.class("nontrivial_cross_variant");
        }
    }
    st.sample(|| json!({"A": short(&a), "B": short(&b), "converted": short(&conv), "values": images.iter().map(|(v, w)| format!("{v} -> {w}")).collect::<Vec<_>>()}));
    fails
}

// ---------------------------------------------------------------------------------------------
// Leg 2: lossy conversions must be refused at value level

#[derive(Clone, Debug, Serialize, Deserialize)]
pub struct LossySpec {
    pub v: ValueSpec,
    /// target variant: "int", "bool", "date"
    pub target: String,
}

pub fn lossy_strategy() -> impl Strategy<Value = LossySpec> {
    prop_oneof![
        // non integral or out of range floats to int
        40 => f64_atom().prop_map(|f| LossySpec { v: ValueSpec::Float(f), target: "int".into() }),
        15 => f64_atom().prop_map(|f| LossySpec { v: ValueSpec::Float(f), target: "bool".into() }),
        25 => i64_atom().prop_map(|i| LossySpec { v: ValueSpec::Int(i), target: "bool".into() }),
        20 => (0i64..2_000_000_000).prop_map(|s| LossySpec { v: ValueSpec::DateTime(s), target: "date".into() }),
        // a requested type of another variant that cannot hold the converted value
        12 => (-50i64..50, 0u8..4).prop_map(|(i, k)| LossySpec { v: ValueSpec::Int(i), target: format!("narrow:{k}") }),
        6 => (any::<bool>(), 0u8..4).prop_map(|(b, k)| LossySpec { v: ValueSpec::Bool(b), target: format!("narrow:{k}") }),
        // sub-second date-times to text: two values inside one second must stay distinct
        10 => (0i64..2_000_000_000, 1u32..1_000_000, 1u32..1_000_000).prop_map(|(s, a, b)| LossySpec { v: ValueSpec::DateTime(s), target: format!("subsecond:{a}:{b}") }),
    ]
}

/// a requested type (other variant) that excludes the natural image of the value
fn narrow_target(v: &ValueSpec, k: u8) -> Option<(DataType, bool)> {
    match v {
        ValueSpec::Int(i) => Some(match k % 4 {
            0 => (DataType::float_interval(*i as f64 + 1.0, *i as f64 + 6.0), false),
            1 => (DataType::float_values([*i as f64 - 1.5, *i as f64 + 2.0]), false),
            2 => (DataType::text_values([(*i + 1).to_string(), format!("x{i}")]), false),
            // a requested type that does hold the image: must convert
            _ => (DataType::float_interval(*i as f64 - 1.0, *i as f64 + 1.0), true),
        }),
        ValueSpec::Bool(b) => Some(match k % 4 {
            0 => (DataType::integer_value(if *b { 0 } else { 1 }), false),
            1 => (DataType::float_interval(2.0, 3.0), false),
            2 => (DataType::text_values(["maybe".to_string()]), false),
            _ => (DataType::integer_interval(0, 1), true),
        }),
        _ => None,
    }
}

pub fn check_lossy(spec: &LossySpec, st: &mut Stats) -> Vec<Fail> {
    let mut fails = vec![];
    let v = spec.v.to_value();
    if let Some(k) = spec.target.strip_prefix("narrow:") {
        let Some((target, holds)) = narrow_target(&spec.v, k.parse().unwrap_or(0)) else { return fails };
        st.eval();
        st.class(if holds { "requested_type_holds_the_image" } else { "requested_type_excludes_the_image" });
        match safe(|| v.as_data_type(&target)) {
            Ok(Ok(w)) => {
                if lax(&target, &w) == Tri::No {
                    fails.push(Fail::new(
                        format!("C12|image_outside_requested_type|{}|{}", crate::member::value_tag(&v), type_tag(&target)),
                        format!("v={v} converted into {target} gives {w}, which the requested type does not contain (the conversion must be refused)"),
                    ));
                }
            }
            Ok(Err(e)) => {
                if holds {
                    fails.push(Fail::new(format!("C12|value_refused|requested_type_holds_the_image|{}", crate::member::value_tag(&v)), format!("v={v} into {target}: {e}")));
                }
            }
            Err(_) => st.class("narrow_conversion_panicked"),
        }
        if !holds {
            st.nontrivial(hash_json(spec));
        }
        return fails;
    }
    if let Some(ab) = spec.target.strip_prefix("subsecond:") {
        let mut it = ab.split(':').filter_map(|x| x.parse::<u32>().ok());
        let (Some(a), Some(b), ValueSpec::DateTime(secs)) = (it.next(), it.next(), &spec.v) else { return fails };
        if a == b {
            return fails;
        }
        let mk = |us: u32| chrono::DateTime::from_timestamp(*secs, us * 1000).map(|d| Value::date_time(d.naive_utc()));
        let (Some(v1), Some(v2)) = (mk(a), mk(b)) else { return fails };
        st.eval();
        st.class("subsecond_pair");
        let t = DataType::text();
        if let (Ok(Ok(w1)), Ok(Ok(w2))) = (safe(|| v1.as_data_type(&t)), safe(|| v2.as_data_type(&t))) {
            st.nontrivial(hash_json(spec));
            if w1 == w2 {
                fails.push(Fail::new("C12|not_injective|datetime/text|subsecond", format!("distinct date-times {v1} and {v2} both convert to {w1}")));
            }
        }
        return fails;
    }
    let (target, lossy) = match (&spec.v, spec.target.as_str()) {
        (ValueSpec::Float(f), "int") => (DataType::integer(), f.fract() != 0.0 || !(*f >= -9223372036854775808.0 && *f < 9223372036854775808.0)),
        (ValueSpec::Float(f), "bool") => (DataType::boolean(), *f != 0.0 && *f != 1.0),
        (ValueSpec::Int(i), "bool") => (DataType::boolean(), *i != 0 && *i != 1),
        (ValueSpec::DateTime(s), "date") => (DataType::date(), s.rem_euclid(86_400) != 0),
        _ => return fails,
    };
    st.eval();
    let r = safe(|| v.as_data_type(&target));
    if lossy {
        st.class(&format!("lossy:{}", spec.target));
        st.nontrivial(hash_json(spec));
        if let Ok(Ok(w)) = &r {
            fails.push(Fail::new(
                format!("C12|lossy_accepted|{}/{}|{}", crate::member::value_tag(&v), spec.target, witness_cause(&v)),
                format!("v={v} converts to {w} in {target} although the conversion loses information"),
            ));
        }
    } else {
        st.class(&format!("exact:{}", spec.target));
        // an exact value must convert, and convert back to itself
        match &r {
            Ok(Ok(w)) => {
                if let Ok(Ok(back)) = safe(|| w.as_data_type(&crate::safe::safe(|| qrlew::data_type::DataTyped::data_type(&v)).unwrap_or(DataType::Any))) {
                    if back != v {
                        fails.push(Fail::new(
                            format!("C12|round_trip|{}/{}|{}", crate::member::value_tag(&v), spec.target, witness_cause(&v)),
                            format!("v={v} -> {w} -> {back}"),
                        ));
                    }
                }
            }
            _ => {}
        }
    }
    st.sample(|| json!({"value": v.to_string(), "target": spec.target, "lossy": lossy, "result": format!("{:?}", r.as_ref().map(|x| x.as_ref().map(|w| w.to_string()).map_err(|e| e.to_string())).map_err(|p| p.msg.clone()))}));
    fails
}

pub fn run(ctx: &Ctx, findings: &Findings) -> Report {
    let mut rep = Report::new(
        "C12",
        "exploration",
        "conversions: generated source type A (relational fragment 70 %, any composite 30 %), target B of the same structure with every leaf moved to a convertible variant (full variant or a specific superset; sometimes wrapped in optional); when A.into_data_type(B) is accepted, up to 3 distinct values of A are converted with Value::as_data_type and checked for (1) acceptance, (2) membership in the converted type, (3) pairwise distinct images, (4) round trip when the reverse value conversion succeeds. Non-trivial = accepted conversion with >= 2 distinct values; distinct by spec hash. lossy leg: float->int, float->bool, int->bool, datetime->date values; non-trivial = the value is lossy by the harness's own arithmetic and must be refused.",
    );
    rep.assumptions = vec![
        "membership of the image uses the lax reading (see C11)".into(),
        "value equality is the library's PartialEq on Value, modulo one level of some(..) wrapping for the round trip".into(),
    ];
    rep.legs.push(search(ctx, "C12", "conversions", ctx.cases(2_000_000, 20), findings, strategy, check));
    rep.legs.push(search(ctx, "C12", "lossy", ctx.cases(400_000, 20), findings, lossy_strategy, check_lossy));
    rep.require_class("conversion_accepted", 5_000);
    rep.require_class("nontrivial_cross_variant", 1_000);
    rep.require_class("round_trip_evaluated", 1_000);
    rep.require_class("lossy:int", 500);
    rep.require_class("lossy:bool", 500);
    rep.require_class("lossy:date", 500);
    rep
}

pub fn replay(leg: &str, spec: &J, st: &mut Stats) -> Result<Vec<Fail>, String> {
    match leg {
        "conversions" => Ok(check(&decode::<ConvSpec>(spec)?, st)),
        "lossy" => Ok(check_lossy(&decode::<LossySpec>(spec)?, st)),
        _ => Err(format!("unknown leg {leg}")),
    }
}
