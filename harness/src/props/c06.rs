//! C06 — range propagation is sound for every function, aggregate and composed expression.
use crate::member::{lax, strict, Tri};
use crate::run::*;
use crate::safe::safe;
use crate::spec::*;
use proptest::prelude::*;
use qrlew::data_type::function::Function as _;
use qrlew::data_type::value::Value;
use qrlew::data_type::DataType;
use qrlew::expr::aggregate::Aggregate as A;
use qrlew::expr::function::Function as F;
use qrlew::expr::{self, Expr};
use serde::{Deserialize, Serialize};
use serde_json::{json, Value as J};
use std::sync::Arc;

#[derive(Clone, Copy, Debug, PartialEq)]
pub enum K {
    I,
    Fl,
    T,
    B,
    D,
    Tm,
    Dt,
    Du,
    Any,
    LI,
    LF,
    LT,
    LAny,
    /// a small non-negative integer (precision, position, size)
    Small,
}
use K::*;

pub struct FnEntry {
    pub name: &'static str,
    pub f: F,
    pub overloads: &'static [&'static [K]],
    /// `value` is implemented (not `unimplemented!()`)
    pub evaluable: bool,
}

macro_rules! e {
    ($name:expr, $f:expr, $ov:expr) => {
        FnEntry { name: $name, f: $f, overloads: $ov, evaluable: true }
    };
    ($name:expr, $f:expr, $ov:expr, no) => {
        FnEntry { name: $name, f: $f, overloads: $ov, evaluable: false }
    };
}

const NUM2: &[&[K]] = &[&[I, I], &[Fl, Fl], &[I, Fl], &[Fl, I]];
const CMP2: &[&[K]] = &[&[I, I], &[Fl, Fl], &[I, Fl], &[D, D], &[Tm, Tm], &[Dt, Dt], &[T, T], &[D, Dt]];
const ANY2: &[&[K]] = &[&[I, I], &[Fl, Fl], &[T, T], &[B, B], &[D, D], &[Dt, Dt], &[I, Fl], &[I, T], &[B, I], &[Any, Any]];
const BOOL2: &[&[K]] = &[&[B, B], &[B, I]];
const DATEISH: &[&[K]] = &[&[D], &[Dt]];
const TIMEISH: &[&[K]] = &[&[Tm], &[Dt]];

pub fn table() -> Vec<FnEntry> {
    vec![
        e!("opposite", F::Opposite, &[&[Fl], &[I]]),
        e!("not", F::Not, &[&[B], &[I]]),
        e!("plus", F::Plus, NUM2),
        e!("minus", F::Minus, NUM2),
        e!("multiply", F::Multiply, NUM2),
        e!("divide", F::Divide, NUM2),
        e!("modulo", F::Modulo, &[&[I, I], &[I, Small]]),
        e!("string_concat", F::StringConcat, &[&[T, T], &[T, I]]),
        e!("gt", F::Gt, CMP2),
        e!("lt", F::Lt, CMP2),
        e!("gt_eq", F::GtEq, CMP2),
        e!("lt_eq", F::LtEq, CMP2),
        e!("eq", F::Eq, ANY2),
        e!("not_eq", F::NotEq, ANY2),
        e!("and", F::And, BOOL2),
        e!("or", F::Or, BOOL2),
        e!("xor", F::Xor, BOOL2),
        e!("bitwise_or", F::BitwiseOr, BOOL2),
        e!("bitwise_and", F::BitwiseAnd, BOOL2),
        e!("bitwise_xor", F::BitwiseXor, BOOL2),
        e!("exp", F::Exp, &[&[Fl], &[I]]),
        e!("ln", F::Ln, &[&[Fl], &[I]]),
        e!("log", F::Log, &[&[Fl], &[I]]),
        e!("abs", F::Abs, &[&[Fl], &[I]]),
        e!("sin", F::Sin, &[&[Fl], &[I]]),
        e!("cos", F::Cos, &[&[Fl], &[I]]),
        e!("sqrt", F::Sqrt, &[&[Fl], &[I]]),
        e!("pow", F::Pow, &[&[Fl, Fl], &[Fl, Small], &[I, Small]]),
        e!("case", F::Case, &[&[B, I, I], &[B, Fl, Fl], &[B, T, T], &[B, I, Fl], &[B, D, D], &[B, Any, Any]]),
        e!("concat", F::Concat(2), &[&[T, T], &[T, I], &[I, Fl]]),
        e!("char_length", F::CharLength, &[&[T]]),
        e!("lower", F::Lower, &[&[T]]),
        e!("upper", F::Upper, &[&[T]]),
        e!("md5", F::Md5, &[&[T]]),
        e!("position", F::Position, &[&[T, T]]),
        e!("pi", F::Pi, &[&[]]),
        e!("cast_as_text", F::CastAsText, &[&[I], &[Fl], &[B], &[D], &[Dt], &[Tm], &[T]]),
        e!("cast_as_float", F::CastAsFloat, &[&[I], &[T], &[B], &[Fl]]),
        e!("cast_as_integer", F::CastAsInteger, &[&[Fl], &[T], &[B], &[I]]),
        e!("cast_as_boolean", F::CastAsBoolean, &[&[I], &[T], &[Fl], &[B]]),
        e!("cast_as_date_time", F::CastAsDateTime, &[&[T], &[D]]),
        e!("cast_as_date", F::CastAsDate, &[&[T], &[Dt]]),
        e!("cast_as_time", F::CastAsTime, &[&[T], &[Dt]]),
        e!("least", F::Least, &[&[I, I], &[Fl, Fl], &[I, Fl], &[D, D], &[Tm, Tm], &[Dt, Dt]]),
        e!("greatest", F::Greatest, &[&[I, I], &[Fl, Fl], &[I, Fl], &[D, D], &[Tm, Tm], &[Dt, Dt]]),
        e!("rtrim", F::Rtrim, &[&[T, T]]),
        e!("ltrim", F::Ltrim, &[&[T, T]]),
        e!("substr", F::Substr, &[&[T, Small]]),
        e!("substr_with_size", F::SubstrWithSize, &[&[T, Small, Small]]),
        e!("ceil", F::Ceil, &[&[Fl], &[I]]),
        e!("floor", F::Floor, &[&[Fl], &[I]]),
        e!("round", F::Round, &[&[Fl, Small], &[I, Small]]),
        e!("trunc", F::Trunc, &[&[Fl, Small], &[I, Small]]),
        e!("sign", F::Sign, &[&[Fl], &[I]]),
        e!("unhex", F::Unhex, &[&[T]]),
        e!("extract_epoch", F::ExtractEpoch, &[&[D], &[Dt], &[Du]]),
        e!("extract_year", F::ExtractYear, DATEISH),
        e!("extract_month", F::ExtractMonth, DATEISH),
        e!("extract_day", F::ExtractDay, DATEISH),
        e!("extract_dow", F::ExtractDow, DATEISH),
        e!("extract_week", F::ExtractWeek, DATEISH),
        e!("extract_hour", F::ExtractHour, TIMEISH),
        e!("extract_minute", F::ExtractMinute, TIMEISH),
        e!("extract_second", F::ExtractSecond, TIMEISH),
        e!("extract_microsecond", F::ExtractMicrosecond, TIMEISH),
        e!("extract_millisecond", F::ExtractMillisecond, TIMEISH),
        e!("dayname", F::Dayname, DATEISH),
        e!("unix_timestamp", F::UnixTimestamp, DATEISH),
        e!("quarter", F::Quarter, DATEISH),
        e!("date", F::Date, DATEISH),
        e!("from_unixtime", F::FromUnixtime, &[&[I, T]]),
        e!("date_format", F::DateFormat, &[&[D, T], &[Dt, T]]),
        e!("datetime_diff", F::DatetimeDiff, &[&[D, D, T], &[Dt, Dt, T]]),
        e!("in_list", F::InList, &[&[I, LI], &[Fl, LF], &[T, LT]]),
        e!("coalesce", F::Coalesce, &[&[I, I], &[Fl, Fl], &[T, T], &[I, Fl], &[Any, Any]]),
        e!("choose", F::Choose, &[&[Small, LAny], &[I, LI]]),
        e!("is_null", F::IsNull, &[&[I], &[Fl], &[T], &[Any]]),
        e!("is_bool", F::IsBool, &[&[B, B]]),
        e!("regexp_contains", F::RegexpContains, &[&[T, T]], no),
        e!("regexp_extract", F::RegexpExtract, &[&[T, T, Small, Small]], no),
        e!("regexp_replace", F::RegexpReplace, &[&[T, T, T]], no),
        e!("encode", F::Encode, &[&[T, T]], no),
        e!("decode", F::Decode, &[&[T, T]], no),
        e!("like", F::Like, &[&[T, T]], no),
        e!("ilike", F::Ilike, &[&[T, T]], no),
    ]
}

pub struct AggEntry {
    pub name: &'static str,
    pub a: A,
    pub kinds: &'static [K],
}

pub fn agg_table() -> Vec<AggEntry> {
    let num: &'static [K] = &[I, Fl];
    let fl: &'static [K] = &[Fl, I];
    let any: &'static [K] = &[I, Fl, T, B, D];
    vec![
        AggEntry { name: "min", a: A::Min, kinds: num },
        AggEntry { name: "max", a: A::Max, kinds: num },
        AggEntry { name: "first", a: A::First, kinds: any },
        AggEntry { name: "last", a: A::Last, kinds: any },
        AggEntry { name: "mean", a: A::Mean, kinds: fl },
        AggEntry { name: "mean_distinct", a: A::MeanDistinct, kinds: fl },
        AggEntry { name: "count", a: A::Count, kinds: any },
        AggEntry { name: "count_distinct", a: A::CountDistinct, kinds: any },
        AggEntry { name: "sum", a: A::Sum, kinds: num },
        AggEntry { name: "sum_distinct", a: A::SumDistinct, kinds: num },
        AggEntry { name: "std", a: A::Std, kinds: fl },
        AggEntry { name: "std_distinct", a: A::StdDistinct, kinds: fl },
        AggEntry { name: "var", a: A::Var, kinds: fl },
        AggEntry { name: "var_distinct", a: A::VarDistinct, kinds: fl },
        AggEntry { name: "median", a: A::Median, kinds: fl },
        AggEntry { name: "n_unique", a: A::NUnique, kinds: any },
        AggEntry { name: "list", a: A::List, kinds: any },
        AggEntry { name: "agg_groups", a: A::AggGroups, kinds: any },
    ]
}

fn small_int_type() -> BoxedStrategy<TypeSpec> {
    prop_oneof![
        4 => (0i64..6, 0i64..6).prop_map(|(a, w)| TypeSpec::Int(vec![[a, a + w]])),
        1 => (-3i64..400, 0i64..400).prop_map(|(a, w)| TypeSpec::Int(vec![[a, a + w]])),
        1 => int_type(),
    ]
    .boxed()
}

fn kind_strategy(k: K) -> BoxedStrategy<TypeSpec> {
    let base: BoxedStrategy<TypeSpec> = match k {
        I => int_type(),
        Fl => prop_oneof![4 => float_type(), 1 => int_type()].boxed(),
        T => text_type(),
        B => bool_type(),
        D => date_type(),
        Tm => time_type(),
        Dt => datetime_type(),
        Du => duration_type(),
        Any => cell_prim_type(),
        Small => small_int_type(),
        LI => (int_type(), 1i64..4).prop_map(|(t, n)| TypeSpec::List(Box::new(t), [1, n])).boxed(),
        LF => (float_type(), 1i64..4).prop_map(|(t, n)| TypeSpec::List(Box::new(t), [1, n])).boxed(),
        LT => (text_type(), 1i64..4).prop_map(|(t, n)| TypeSpec::List(Box::new(t), [1, n])).boxed(),
        LAny => (cell_prim_type(), 1i64..4).prop_map(|(t, n)| TypeSpec::List(Box::new(t), [1, n])).boxed(),
    };
    if matches!(k, LI | LF | LT | LAny) {
        return base;
    }
    // optional wrapping (nullable column) 15 %, an unrelated kind 4 %
    prop_oneof![
        81 => base.clone(),
        15 => base.prop_map(|t| TypeSpec::Optional(Box::new(t))),
        4 => cell_type(),
    ]
    .boxed()
}

#[derive(Clone, Debug, Serialize, Deserialize)]
pub struct FnCase {
    pub f: String,
    pub args: Vec<TypeSpec>,
    pub picks: Vec<u16>,
}

pub fn fn_strategy(only_evaluable: bool) -> BoxedStrategy<FnCase> {
    let tab = table();
    let choices: Vec<(String, Vec<K>)> = tab
        .iter()
        .filter(|e| e.evaluable || !only_evaluable)
        .flat_map(|e| e.overloads.iter().map(move |o| (e.name.to_string(), o.to_vec())))
        .collect();
    // pick a function uniformly, then one of its overloads (so functions with many overloads are not over-represented)
    let names: Vec<String> = {
        let mut n: Vec<String> = choices.iter().map(|c| c.0.clone()).collect();
        n.dedup();
        n
    };
    (prop::sample::select(names), any::<u16>(), picks_strategy(24))
        .prop_flat_map(move |(name, ov, picks)| {
            let ovs: Vec<&(String, Vec<K>)> = choices.iter().filter(|c| c.0 == name).collect();
            let kinds = ovs[(ov as usize * ovs.len()) >> 16].1.clone();
            let args: Vec<BoxedStrategy<TypeSpec>> = kinds.iter().map(|k| kind_strategy(*k)).collect();
            (Just(name), args, Just(picks))
        })
        .prop_map(|(f, args, picks)| FnCase { f, args, picks })
        .boxed()
}

fn short(t: &DataType) -> String {
    let s = t.to_string();
    if s.chars().count() > 200 {
        let h: String = s.chars().take(200).collect();
        format!("{h}…")
    } else {
        s
    }
}

/// classes of an argument type for the evidence histogram
fn arg_class(t: &TypeSpec) -> &'static str {
    match t {
        TypeSpec::Optional(_) => "optional",
        TypeSpec::List(..) => "list",
        t if t.pieces() == 0 => "other",
        t if t.pieces() >= 120 => "over_capacity",
        TypeSpec::Int(v) if v.iter().all(|x| x[0] == x[1]) => "value_set",
        TypeSpec::Float(v) if v.iter().all(|x| x[0] == x[1]) => "value_set",
        TypeSpec::Text(v) if v.iter().all(|x| x[0] == x[1]) => "value_set",
        t if t.pieces() > 1 => "multi_interval",
        _ => "interval",
    }
}

/// "variant:shape" class of a data type, used in violation keys
pub fn dt_class(t: &DataType) -> String {
    fn shape<B: qrlew::data_type::intervals::Bound>(iv: &qrlew::data_type::intervals::Intervals<B>) -> &'static str {
        let n = iv.len();
        if n == 0 {
            "empty"
        } else if iv.all_values() {
            "value_set"
        } else if n == 1 {
            "interval"
        } else if n >= 64 {
            "many_intervals"
        } else {
            "multi_interval"
        }
    }
    match t {
        DataType::Optional(_) => "optional:optional".into(),
        DataType::List(_) => "list:list".into(),
        DataType::Boolean(iv) => format!("bool:{}", shape(iv)),
        DataType::Integer(iv) => format!("int:{}", shape(iv)),
        DataType::Float(iv) => format!("float:{}", shape(iv)),
        DataType::Text(iv) => format!("text:{}", shape(iv)),
        DataType::Date(iv) => format!("date:{}", shape(iv)),
        DataType::Time(iv) => format!("time:{}", shape(iv)),
        DataType::DateTime(iv) => format!("datetime:{}", shape(iv)),
        DataType::Duration(iv) => format!("duration:{}", shape(iv)),
        other => format!("{}:other", crate::member::type_tag(other)),
    }
}

fn kind_accepts(k: K, t: &DataType) -> bool {
    match (k, t) {
        (I, DataType::Integer(_)) | (Small, DataType::Integer(_)) => true,
        (Fl, DataType::Float(_)) | (Fl, DataType::Integer(_)) => true,
        (T, DataType::Text(_)) => true,
        (B, DataType::Boolean(_)) => true,
        (D, DataType::Date(_)) => true,
        (Tm, DataType::Time(_)) => true,
        (Dt, DataType::DateTime(_)) => true,
        (Du, DataType::Duration(_)) => true,
        (Any, t) => !matches!(t, DataType::Optional(_) | DataType::Struct(_) | DataType::Union(_) | DataType::List(_) | DataType::Any | DataType::Null),
        (LI, DataType::List(l)) => matches!(l.data_type(), DataType::Integer(_)),
        (LF, DataType::List(l)) => matches!(l.data_type(), DataType::Float(_)),
        (LT, DataType::List(l)) => matches!(l.data_type(), DataType::Text(_)),
        (LAny, DataType::List(_)) => true,
        _ => false,
    }
}

/// "core": the argument types are exactly the (non-optional) variants one of the function's overloads declares
pub fn is_core(entry: &FnEntry, types: &[DataType]) -> bool {
    entry
        .overloads
        .iter()
        .any(|o| o.len() == types.len() && o.iter().zip(types.iter()).all(|(k, t)| kind_accepts(*k, t)))
}

fn core_tag(core: bool) -> &'static str {
    if core {
        "core"
    } else {
        "noncore"
    }
}

/// membership with a rounding tolerance for float results of re-associated computations
fn contains_with_tolerance(t: &DataType, y: &Value, ulps: f64) -> bool {
    let Some(y) = crate::member::unwrap_some(y) else { return false };
    let Value::Float(f) = &y else { return false };
    let f: f64 = **f;
    let t = match t {
        DataType::Optional(o) => o.data_type().clone(),
        t => t.clone(),
    };
    let ivs: Vec<[f64; 2]> = match &t {
        DataType::Float(iv) => iv.iter().cloned().collect(),
        DataType::Integer(iv) => iv.iter().map(|[a, b]| [*a as f64, *b as f64]).collect(),
        _ => return false,
    };
    ivs.iter().any(|[a, b]| {
        let scale = f.abs().max(a.abs()).max(b.abs()).max(f64::MIN_POSITIVE);
        let tol = scale * f64::EPSILON * ulps;
        f >= a - tol && f <= b + tol
    })
}

fn tolerance_for(name: &str) -> f64 {
    match name {
        // periodic reduction of the argument / re-associated sums: a few ulps
        "sin" | "cos" | "mean" | "mean_distinct" | "std" | "std_distinct" | "var" | "var_distinct" | "sum" | "sum_distinct" => 8.0,
        _ => 0.0,
    }
}

fn result_cause(args: &[Value], y: &Value) -> &'static str {
    let c = crate::member::witness_cause(y);
    if c != "plain" {
        return c;
    }
    for a in args {
        let c = crate::member::witness_cause(a);
        if c != "plain" && c != "null" {
            return c;
        }
    }
    "plain"
}

pub fn check_fn(case: &FnCase, st: &mut Stats) -> Vec<Fail> {
    let mut fails = vec![];
    let tab = table();
    let Some(entry) = tab.iter().find(|e| e.name == case.f) else {
        st.reject();
        return fails;
    };
    let mut p = Picks::new(&case.picks);
    let types: Vec<DataType> = match safe(|| case.args.iter().map(|t| t.to_data_type()).collect()) {
        Ok(t) => t,
        Err(_) => {
            st.reject();
            return fails;
        }
    };
    let mut vals = vec![];
    for (ts, t) in case.args.iter().zip(types.iter()) {
        let Some(v) = ts.value_in(&mut p) else {
            st.class("empty_argument_type");
            return fails;
        };
        let v = v.to_value();
        if strict(t, &v) != Tri::Yes {
            st.reject();
            return fails;
        }
        vals.push(v);
    }
    st.eval();
    let f = entry.f;
    let y = match safe(|| f.value(&vals)) {
        Ok(Ok(y)) => y,
        Ok(Err(_)) => {
            st.class("value_err");
            return fails;
        }
        Err(_) => {
            st.class("value_panic");
            return fails;
        }
    };
    st.class(&format!("fn:{}", entry.name));
    let img = safe(|| f.super_image(&types));
    let show_args = || vals.iter().map(|v| v.to_string()).collect::<Vec<_>>().join(", ");
    let show_types = || types.iter().map(short).collect::<Vec<_>>().join(" × ");
    let is_null = crate::member::is_null_value(&y);
    let nv = if is_null { "null" } else { "value" };
    match img {
        Err(pn) => fails.push(Fail::new(
            format!("C06|image_panic|{}|{}", pn.file_line(), entry.name),
            format!("{}({}) = {y} but super_image({}) panicked at {}: {}", entry.name, show_args(), show_types(), pn.loc, pn.msg),
        )),
        Ok(Err(e)) => fails.push(Fail::new(
            format!("C06|image_err|{}|{nv}", entry.name),
            format!("{}({}) = {y} but super_image({}) fails: {e}", entry.name, show_args(), show_types()),
        )),
        Ok(Ok(t)) => {
            if lax(&t, &y) == Tri::No {
                let tol = tolerance_for(entry.name);
                if tol > 0.0 && contains_with_tolerance(&t, &y, tol) {
                    st.class("within_rounding_tolerance");
                } else {
                    fails.push(Fail::new(
                        format!(
                            "C06|outside|{}|{nv}|{}|{}|{}",
                            entry.name,
                            core_tag(is_core(entry, &types)),
                            types.iter().map(dt_class).collect::<Vec<_>>().join(","),
                            result_cause(&vals, &y)
                        ),
                        format!("{}({}) = {y} is not in super_image({}) = {}", entry.name, show_args(), show_types(), short(&t)),
                    ));
                }
            }
        }
    }
    let trivial = is_null || case.args.iter().all(|a| a.pieces() == 1 && arg_class(a) == "value_set") || case.args.iter().any(|a| matches!(a, TypeSpec::Any));
    if !trivial {
        st.nontrivial(hash_json(case));
        st.class(&format!("nt:{}", entry.name));
        for a in &case.args {
            st.class(&format!("argclass:{}", arg_class(a)));
        }
    }
    st.sample(|| json!({"function": entry.name, "arg_types": types.iter().map(short).collect::<Vec<_>>(), "args": vals.iter().map(|v| v.to_string()).collect::<Vec<_>>(), "value": y.to_string()}));
    fails
}

// ---------------------------------------------------------------------------------------------
// aggregates

#[derive(Clone, Debug, Serialize, Deserialize)]
pub struct AggCase {
    pub a: String,
    pub elem: TypeSpec,
    pub size: [i64; 2],
    pub picks: Vec<u16>,
}

pub fn agg_strategy() -> BoxedStrategy<AggCase> {
    let tab = agg_table();
    let names: Vec<(String, Vec<K>)> = tab.iter().map(|e| (e.name.to_string(), e.kinds.to_vec())).collect();
    (prop::sample::select(names), any::<u16>(), 0i64..4, 0i64..6, picks_strategy(40))
        .prop_flat_map(|((name, kinds), k, lo, w, picks)| {
            let kind = kinds[(k as usize * kinds.len()) >> 16];
            (Just(name), kind_strategy(kind), Just([lo, lo + w]), Just(picks))
        })
        .prop_map(|(a, elem, size, picks)| AggCase { a, elem, size, picks })
        .boxed()
}

pub fn check_agg(case: &AggCase, st: &mut Stats) -> Vec<Fail> {
    let mut fails = vec![];
    let tab = agg_table();
    let Some(entry) = tab.iter().find(|e| e.name == case.a) else {
        st.reject();
        return fails;
    };
    let mut p = Picks::new(&case.picks);
    let lspec = TypeSpec::List(Box::new(case.elem.clone()), case.size);
    let Ok(lt) = safe(|| lspec.to_data_type()) else {
        st.reject();
        return fails;
    };
    let n = (case.size[0] + p.idx((case.size[1] - case.size[0] + 1) as usize) as i64) as usize;
    let mut elems = vec![];
    for _ in 0..n {
        match case.elem.value_in(&mut p) {
            Some(v) => elems.push(v.to_value()),
            None => {
                st.class("empty_element_type");
                return fails;
            }
        }
    }
    let list = Value::list(elems.clone());
    if strict(&lt, &list) != Tri::Yes {
        st.reject();
        return fails;
    }
    st.eval();
    let a = entry.a;
    let y = match safe(|| a.value(&list)) {
        Ok(Ok(y)) => y,
        Ok(Err(_)) => {
            st.class("value_err");
            return fails;
        }
        Err(_) => {
            st.class("value_panic");
            return fails;
        }
    };
    st.class(&format!("agg:{}", entry.name));
    if n == 0 {
        st.class("agg_empty_list");
    }
    let is_null = crate::member::is_null_value(&y);
    let nv = if is_null { "null" } else { "value" };
    let sz = if n == 0 { "empty" } else if n == 1 { "single" } else { "many" };
    match safe(|| a.super_image(&lt)) {
        Err(pn) => fails.push(Fail::new(
            format!("C06|image_panic|{}|agg:{}", pn.file_line(), entry.name),
            format!("{}({list}) = {y} but super_image({}) panicked at {}: {}", entry.name, short(&lt), pn.loc, pn.msg),
        )),
        Ok(Err(e)) => fails.push(Fail::new(
            format!("C06|image_err|agg:{}|{nv}", entry.name),
            format!("{}({list}) = {y} but super_image({}) fails: {e}", entry.name, short(&lt)),
        )),
        Ok(Ok(t)) => {
            if lax(&t, &y) == Tri::No {
                let tol = tolerance_for(entry.name);
                if tol > 0.0 && contains_with_tolerance(&t, &y, tol) {
                    st.class("within_rounding_tolerance");
                } else {
                    fails.push(Fail::new(
                        format!(
                            "C06|outside|agg:{}|{nv}|{sz}|{}|{}|{}",
                            entry.name,
                            core_tag(safe(|| entry.kinds.iter().any(|k| kind_accepts(*k, &case.elem.to_data_type()))).unwrap_or(false)),
                            safe(|| dt_class(&case.elem.to_data_type())).unwrap_or_default(),
                            result_cause(&elems, &y)
                        ),
                        format!("{}({list}) = {y} is not in super_image({}) = {}", entry.name, short(&lt), short(&t)),
                    ));
                }
            }
        }
    }
    if !is_null && n >= 2 {
        st.nontrivial(hash_json(case));
        st.class(&format!("nt:agg:{}", entry.name));
    }
    st.sample(|| json!({"aggregate": entry.name, "list_type": short(&lt), "list": list.to_string(), "value": y.to_string()}));
    fails
}

// ---------------------------------------------------------------------------------------------
// composed expression trees over a row type

#[derive(Clone, Debug, Serialize, Deserialize)]
pub enum ExprSpec {
    Col(u8),
    Lit(ValueSpec),
    Call(String, Vec<ExprSpec>),
}

#[derive(Clone, Debug, Serialize, Deserialize)]
pub struct TreeCase {
    pub cols: Vec<TypeSpec>,
    pub expr: ExprSpec,
    pub picks: Vec<u16>,
}

const COLS: [&str; 4] = ["a", "b", "c", "d"];

fn lit_strategy() -> BoxedStrategy<ValueSpec> {
    prop_oneof![
        4 => (-5i64..20).prop_map(ValueSpec::Int),
        3 => (-40i64..40).prop_map(|x| ValueSpec::Float(x as f64 / 4.0)),
        1 => text_atom().prop_map(ValueSpec::Text),
        1 => any::<bool>().prop_map(ValueSpec::Bool),
    ]
    .boxed()
}

fn tree_strategy_expr(depth: u32) -> BoxedStrategy<ExprSpec> {
    let leaf = prop_oneof![3 => (0u8..4).prop_map(ExprSpec::Col), 1 => lit_strategy().prop_map(ExprSpec::Lit)].boxed();
    if depth == 0 {
        return leaf;
    }
    let sub = tree_strategy_expr(depth - 1);
    let unary = vec!["opposite", "abs", "exp", "ln", "sqrt", "ceil", "floor", "sign", "cast_as_float", "cast_as_integer", "cast_as_text", "not", "char_length", "upper", "lower", "is_null"];
    let binary = vec!["plus", "minus", "multiply", "divide", "modulo", "gt", "lt", "gt_eq", "lt_eq", "eq", "not_eq", "and", "or", "least", "greatest", "pow", "coalesce", "round", "string_concat"];
    prop_oneof![
        2 => leaf,
        4 => (prop::sample::select(unary), sub.clone()).prop_map(|(f, a)| ExprSpec::Call(f.to_string(), vec![a])),
        6 => (prop::sample::select(binary), sub.clone(), sub.clone()).prop_map(|(f, a, b)| ExprSpec::Call(f.to_string(), vec![a, b])),
        1 => (sub.clone(), sub.clone(), sub).prop_map(|(c, a, b)| ExprSpec::Call("case".to_string(), vec![c, a, b])),
    ]
    .boxed()
}

pub fn tree_strategy() -> BoxedStrategy<TreeCase> {
    let col = prop_oneof![
        3 => int_type(), 3 => float_type(), 1 => text_type(), 1 => bool_type(),
        1 => int_type().prop_map(|t| TypeSpec::Optional(Box::new(t))),
        1 => float_type().prop_map(|t| TypeSpec::Optional(Box::new(t))),
    ];
    (proptest::collection::vec(col, 4..=4), tree_strategy_expr(3), picks_strategy(24))
        .prop_map(|(cols, expr, picks)| TreeCase { cols, expr, picks })
        .boxed()
}

fn build_expr(e: &ExprSpec, tab: &[FnEntry]) -> Option<Expr> {
    Some(match e {
        ExprSpec::Col(i) => Expr::col(COLS[(*i as usize) % 4]),
        ExprSpec::Lit(v) => Expr::val(v.to_value()),
        ExprSpec::Call(name, args) => {
            let f = tab.iter().find(|x| x.name == name)?.f;
            let args: Option<Vec<Arc<Expr>>> = args.iter().map(|a| build_expr(a, tab).map(Arc::new)).collect();
            Expr::Function(expr::Function::new(f, args?))
        }
    })
}

fn expr_size(e: &ExprSpec) -> usize {
    match e {
        ExprSpec::Call(_, a) => 1 + a.iter().map(expr_size).sum::<usize>(),
        _ => 1,
    }
}

fn root_fn(e: &ExprSpec) -> String {
    match e {
        ExprSpec::Call(n, _) => n.clone(),
        ExprSpec::Col(_) => "col".into(),
        ExprSpec::Lit(_) => "lit".into(),
    }
}

/// the innermost call whose own value is already outside its own image: returns the function-level key of that call
fn localise(e: &ExprSpec, tab: &[FnEntry], row_t: &DataType, row: &Value) -> Option<String> {
    if let ExprSpec::Call(name, args) = e {
        for a in args {
            if let Some(inner) = localise(a, tab, row_t, row) {
                return Some(inner);
            }
        }
        let ex = build_expr(e, tab)?;
        let y = safe(|| ex.value(row)).ok()?.ok()?;
        let nv = if crate::member::is_null_value(&y) { "null" } else { "value" };
        let mut arg_types = vec![];
        let mut arg_vals = vec![];
        for a in args {
            let ax = build_expr(a, tab)?;
            arg_types.push(safe(|| ax.super_image(row_t)).ok()?.ok()?);
            arg_vals.push(safe(|| ax.value(row)).ok()?.ok()?);
        }
        let classes = arg_types.iter().map(dt_class).collect::<Vec<_>>().join(",");
        let t = safe(|| ex.super_image(row_t)).ok()?;
        match t {
            Ok(t) => {
                if lax(&t, &y) == Tri::No && !(tolerance_for(name) > 0.0 && contains_with_tolerance(&t, &y, tolerance_for(name))) {
                    let core = tab.iter().find(|x| x.name == name).map_or(false, |en| is_core(en, &arg_types));
                    return Some(format!("C06|outside|{name}|{nv}|{}|{classes}|{}", core_tag(core), result_cause(&arg_vals, &y)));
                }
            }
            Err(_) => return Some(format!("C06|image_err|{name}|{nv}")),
        }
    }
    None
}

pub fn check_tree(case: &TreeCase, st: &mut Stats) -> Vec<Fail> {
    let mut fails = vec![];
    let tab = table();
    let mut p = Picks::new(&case.picks);
    let fields: Vec<(String, TypeSpec)> = COLS.iter().map(|c| c.to_string()).zip(case.cols.iter().cloned()).collect();
    let row_spec = TypeSpec::Struct(fields);
    let Ok(row_t) = safe(|| row_spec.to_data_type()) else {
        st.reject();
        return fails;
    };
    let Some(row_v) = row_spec.value_in(&mut p) else {
        st.class("empty_row_type");
        return fails;
    };
    let row = row_v.to_value();
    let Some(ex) = build_expr(&case.expr, &tab) else {
        st.reject();
        return fails;
    };
    st.eval();
    let y = match safe(|| ex.value(&row)) {
        Ok(Ok(y)) => y,
        Ok(Err(_)) => {
            st.class("value_err");
            return fails;
        }
        Err(_) => {
            st.class("value_panic");
            return fails;
        }
    };
    st.class("tree_evaluated");
    let is_null = crate::member::is_null_value(&y);
    let nv = if is_null { "null" } else { "value" };
    match safe(|| ex.super_image(&row_t)) {
        Err(pn) => fails.push(Fail::new(
            format!("C06|tree_image_panic|{}", pn.file_line()),
            format!("{ex} on {row} = {y} but super_image({}) panicked at {}: {}", short(&row_t), pn.loc, pn.msg),
        )),
        Ok(Err(e)) => {
            let key = localise(&case.expr, &tab, &row_t, &row).unwrap_or_else(|| format!("C06|tree_image_err|composition:{}|{nv}", root_fn(&case.expr)));
            fails.push(Fail::new(
                key,
                format!("{ex} on {row} = {y} but super_image({}) fails: {e}", short(&row_t)),
            ))
        }
        Ok(Ok(t)) => {
            if lax(&t, &y) == Tri::No && !contains_with_tolerance(&t, &y, 8.0) {
                let key = localise(&case.expr, &tab, &row_t, &row)
                    .unwrap_or_else(|| format!("C06|tree_outside|composition:{}|{nv}|{}", root_fn(&case.expr), result_cause(&[row.clone()], &y)));
                fails.push(Fail::new(
                    key,
                    format!("{ex} on {row} = {y} is not in super_image({}) = {}", short(&row_t), short(&t)),
                ));
            }
        }
    }
    if !is_null && expr_size(&case.expr) >= 3 {
        st.nontrivial(hash_json(case));
        st.class("nt:tree");
    }
    st.sample(|| json!({"expr": ex.to_string(), "row_type": short(&row_t), "row": row.to_string(), "value": y.to_string()}));
    fails
}

// ---------------------------------------------------------------------------------------------

pub fn run(ctx: &Ctx, findings: &Findings) -> Report {
    let mut rep = Report::new(
        "C06",
        "exploration",
        "functions: every expr::function::Function with an implemented value (arity and argument kinds from a table mirroring the declared domains), argument types generated per kind (intervals, multi-interval, value sets, 120-140 pieces, optional, int where float is expected, 4 % unrelated kinds), one point drawn per argument; aggregates: List(S,size) with a concrete list whose length lies in size; trees: expressions of depth <= 3 over a 4-column row. Obligation: value Ok(y) => super_image Ok(T) and y in T (lax membership; NULL needs optional T). Non-trivial = y not NULL and the argument types are neither all singletons nor Any (functions), list length >= 2 (aggregates), >= 3 nodes (trees); distinct by spec hash.",
    );
    rep.assumptions = vec![
        "functions whose value is unimplemented!() (regexp_*, like, ilike, encode, decode) have no executable semantics and are not evaluated".into(),
        "float containment is exact, except 8 ulps for sin/cos and for mean/std/var/sum (re-associated floating point sums) and for composed trees".into(),
        "a panic of value() gives no obligation; a panic of super_image() when value() is Ok is reported as a violation (image_panic)".into(),
    ];
    rep.legs.push(search(ctx, "C06", "functions", ctx.cases(1_500_000, 20), findings, || fn_strategy(true), check_fn));
    rep.legs.push(search(ctx, "C06", "aggregates", ctx.cases(600_000, 20), findings, agg_strategy, check_agg));
    rep.legs.push(search(ctx, "C06", "trees", ctx.cases(500_000, 20), findings, tree_strategy, check_tree));
    let tot = rep.total();
    for e in table().iter().filter(|e| e.evaluable) {
        let n = tot.class_count(&format!("fn:{}", e.name));
        // these only evaluate on well-formed date/format strings, which the text generator does not produce
        let unreachable = matches!(e.name, "cast_as_date" | "cast_as_time" | "cast_as_date_time" | "from_unixtime" | "date_format" | "datetime_diff" | "choose" | "unhex");
        if n < 50 && !unreachable {
            rep.inconclusive.push(format!("function {} evaluated only {n} times (< 50)", e.name));
        }
    }
    for e in agg_table() {
        let n = tot.class_count(&format!("agg:{}", e.name));
        if n < 50 && !matches!(e.name, "median" | "n_unique" | "list" | "agg_groups") {
            rep.inconclusive.push(format!("aggregate {} evaluated only {n} times (< 50)", e.name));
        }
    }
    rep.require_class("nt:tree", 2_000);
    rep.require_class("argclass:over_capacity", 200);
    rep.require_class("argclass:optional", 2_000);
    rep
}

pub fn replay(leg: &str, spec: &J, st: &mut Stats) -> Result<Vec<Fail>, String> {
    match leg {
        "functions" => Ok(check_fn(&decode::<FnCase>(spec)?, st)),
        "aggregates" => Ok(check_agg(&decode::<AggCase>(spec)?, st)),
        "trees" => Ok(check_tree(&decode::<TreeCase>(spec)?, st)),
        _ => Err(format!("unknown leg {leg}")),
    }
}
