//! C09 — DP rewriting is exact when noise and clipping are inactive.
use crate::props::dp::*;
use crate::props::sqlprops::{compile, render_relation, with_db, Compiled};
use crate::run::*;
use crate::safe::safe;
use crate::sqlx::db::*;
use crate::sqlx::exec::*;
use crate::sqlx::privacy::*;
use proptest::prelude::*;
use serde::{Deserialize, Serialize};
use serde_json::{json, Value as J};

#[derive(Clone, Debug, Serialize, Deserialize)]
pub struct Case {
    pub schema: DpSchema,
    pub q: DpQuery,
    pub eps: f64,
    pub delta: f64,
    /// multiplicity share giving a fractional multiplicity estimate (size * share); the comparison is made only when no
    /// unit owns more rows than the estimate rounded up
    #[serde(default)]
    pub share: Option<f64>,
}

pub fn strategy() -> BoxedStrategy<Case> {
    (
        schema_strategy(6, 14),
        query_strategy(vec![Group::None, Group::None, Group::Public, Group::Public, Group::Public], true, true),
        prop::sample::select(vec![0.1, 1.0, 5.0]),
        prop::sample::select(vec![1e-6, 1e-3]),
        proptest::option::weighted(0.25, prop::sample::select(vec![0.1, 0.15, 0.2, 0.3, 0.45])),
    )
        .prop_map(|(mut schema, mut q, eps, delta, share)| {
            if share.is_some() {
                q.from = From_::Orders;
            }
            // a join of two protected tables on a condition unrelated to the unit is, by design, restricted to rows of
            // the same unit by the tracking: its result is not comparable with the original query's
            if q.from == From_::OrdersFullJoinUsersOnKind {
                q.from = From_::OrdersJoinUsers;
            }
            // referential integrity holds and units are identified by data (row privacy ids are random draws, which the
            // zero-noise random source cannot make distinct)
            schema.dangling = false;
            if schema.pu_variant % 4 == 2 {
                schema.pu_variant = 0;
            }
            Case { schema, q, eps, delta, share }
        })
        .boxed()
}

fn num(c: &Cell) -> Option<f64> {
    match c {
        Cell::Int(i) => Some(*i as f64),
        Cell::Real(f) => Some(*f),
        _ => None,
    }
}

fn close(a: f64, b: f64) -> bool {
    (a - b).abs() <= 1e-6 * a.abs().max(b.abs()).max(1.0)
}

pub fn check(case: &Case, st: &mut Stats) -> Vec<Fail> {
    let mut fails = vec![];
    let db = case.schema.db();
    let r = case.q.render(&case.schema);
    st.eval();
    let rel = match compile(&r.sql, &db) {
        Compiled::Ok(rel) => rel,
        _ => {
            st.class("not_compiled");
            return fails;
        }
    };
    // multiplicity large enough that no unit can exceed what the clipping bound allows
    let mut dp = DpSpec { epsilon: case.eps, delta: case.delta, tau_share: 0.5, max_mult: 1000.0, max_mult_share: 1.0, max_groups: 50 };
    if let Some(sh) = case.share {
        // fractional estimate: clipping stays inactive as long as every unit owns at most ceil(size * share) rows
        dp.max_mult = 100.0;
        dp.max_mult_share = sh;
        let rows = db.rows();
        let mut per_unit: std::collections::BTreeMap<String, usize> = Default::default();
        for r in &rows[1] {
            *per_unit.entry(r[1].to_string()).or_insert(0) += 1;
        }
        let allowed = (case.schema.n_orders as f64 * sh).ceil().max(1.0) as usize;
        if per_unit.values().any(|n| *n > allowed) {
            st.class("fractional_multiplicity:unit_exceeds_estimate");
            return fails;
        }
        st.class("fractional_multiplicity:compared");
    }
    let rels = db.relations();
    let pu = case.schema.privacy_unit();
    let rewritten = safe(|| rel.rewrite_with_differential_privacy(&rels, None, pu, dp.params()));
    let rw = match rewritten {
        Ok(Ok(r)) => r,
        Ok(Err(_)) => {
            st.class("dp_refused");
            return fails;
        }
        Err(_) => {
            st.class("dp_panicked");
            return fails;
        }
    };
    let is_dp = !rw.dp_event().is_no_op();
    st.class(if is_dp { "dp_rewritten" } else { "rewritten_without_dp" });
    let Ok(dp_sql) = render_relation(rw.relation()) else {
        st.class("render_panic");
        return fails;
    };
    let res = with_db(|d| {
        d.set_rng(RngMode::Zero);
        if d.load(&db, None).is_err() {
            return None;
        }
        // the statement does not fix the variance estimator: the population moments are computed as well
        let pop_sql = r.sql.replace("VARIANCE(", "VAR_POP(").replace("STDDEV(", "STDDEV_POP(");
        Some((d.query(&r.sql), d.query(&dp_sql), d.query(&pop_sql).ok()))
    });
    let Some((orig, dpres, pop)) = res else {
        st.reject();
        return fails;
    };
    let orig = match orig {
        Ok(o) => o,
        Err(_) => {
            st.class("engine_rejects_original");
            return fails;
        }
    };
    let dpres = match dpres {
        Ok(o) => o,
        Err(e) => {
            fails.push(Fail::new(format!("C09|dp_sql_rejected|{}", if e.contains("no such function") { "no_such_function" } else if e.contains("no such column") { "no_such_column" } else { "other" }), format!("query: {}\nengine error on the DP rewriting: {e}\ndp sql: {dp_sql}", r.sql)));
            return fails;
        }
    };
    if !is_dp {
        return fails;
    }
    st.class("compared");
    let nk = r.keys.len();
    let detail = |what: String| format!("{what}\nquery: {}\noriginal: {}\ndp (noise off): {}\nprivacy unit variant {} tables {:?}", r.sql, show_rows(&orig.rows, 8), show_rows(&dpres.rows, 8), case.schema.pu_variant, db.tables.iter().map(|t| t.nrows).collect::<Vec<_>>());
    if dpres.names.len() != orig.names.len() {
        fails.push(Fail::new("C09|column_count", detail(format!("{} columns vs {}", orig.names.len(), dpres.names.len()))));
        return fails;
    }
    let key_of = |row: &Vec<Cell>| -> String { row.iter().take(nk).map(|c| c.to_string()).collect::<Vec<_>>().join("|") };
    let group_tag = match case.q.group {
        Group::None => "ungrouped",
        _ => "public_keys",
    };
    let from_tag = format!("{:?}", case.q.from).to_lowercase();
    let mut multi = false;
    // every original group appears with equal aggregates
    for orow in &orig.rows {
        let k = key_of(orow);
        let Some(drow) = dpres.rows.iter().find(|d| key_of(d) == k) else {
            // an ungrouped aggregate over an empty input is a single row of NULLs/0: the DP side may be empty
            fails.push(Fail::new(format!("C09|group_missing|{group_tag}|{from_tag}"), detail(format!("group {k} of the original result is missing"))));
            return fails;
        };
        for (j, (name, ak)) in r.aggs.iter().enumerate() {
            let (o, d) = (&orow[nk + j], &drow[nk + j]);
            let agg = &case.q.aggs[j];
            let tag = format!("{:?}{}", ak, if agg.distinct { "_distinct" } else { "" }).to_lowercase();
            let ok = match (num(o), num(d)) {
                (Some(a), Some(b)) => match ak {
                    Ak::Var | Ak::Std => {
                        // either estimator (sample or population) is accepted
                        close(a, b)
                            || pop.as_ref().and_then(|p| p.rows.iter().find(|x| key_of(x) == k)).and_then(|x| num(&x[nk + j])).map_or(false, |pv| {
                                // the noisy re-assembly E[x^2] - E[x]^2 loses a few digits: 1e-6 of the second moment
                                (pv - b).abs() <= 1e-6 * pv.abs().max(b.abs()).max(1.0) + 1e-9 * a.abs()
                            })
                    }
                    _ => close(a, b),
                },
                (None, None) => true,
                // SUM/AVG/VAR over no (non-NULL) rows is NULL in SQL; the DP rewriting reports 0 for an empty group
                (None, Some(b)) => {
                    // sample variance of a single row is NULL; the population one is 0
                    if b == 0.0 {
                        st.class("null_vs_zero_accepted");
                    }
                    b == 0.0
                }
                (Some(_), None) => false,
            };
            if !ok {
                let null_tag = match (num(o), num(d)) {
                    (None, Some(_)) => "orig_null",
                    (Some(_), None) => "dp_null",
                    (Some(a), Some(b)) if *ak == Ak::Avg && (b == a.trunc() || b == a.floor()) => "integer_truncation",
                    _ => "value",
                };
                // sign of the aggregated column's declared range (the square of a negative range is mis-bounded)
                let col_ty = match (case.q.from, agg.arg % 4) {
                    (From_::Users, _) => &case.schema.a,
                    (From_::Orders, 3) => &ColTy::Int(0, 1),
                    (From_::Orders, _) | (From_::OrdersJoinUsers, 0..=2) | (From_::OrdersJoinPublicViaUsers, 0..=2) => &case.schema.x,
                    (From_::OrdersJoinUsers, _) => &case.schema.a,
                    (From_::UsersLeftJoinOrders, 0..=2) | (From_::OrdersFullJoinUsersOnKind, 0..=2) => &case.schema.x,
                    (From_::UsersLeftJoinOrders, _) | (From_::OrdersFullJoinUsersOnKind, _) => &case.schema.a,
                    (From_::OrdersJoinPublicViaUsers, _) => &ColTy::Int(0, 10),
                    (From_::Items, _) | (From_::ItemsJoinOrders, 0..=2) => &case.schema.y,
                    (From_::ItemsJoinOrders, _) => &case.schema.x,
                };
                let neg = match col_ty {
                    ColTy::Int(a, _) => *a < 0,
                    ColTy::IntSet(v) => v.iter().any(|x| *x < 0),
                    ColTy::Float(a, _) => *a < 0.0,
                    _ => false,
                };
                let single = match col_ty {
                    ColTy::Int(a, b) => a == b,
                    ColTy::IntSet(v) => v.len() == 1,
                    ColTy::Float(a, b) => a == b,
                    _ => false,
                };
                let sign = if single { "range_single_value" } else if neg { "range_has_negative" } else { "range_nonnegative" };
                // under the outer join, which side the aggregated column comes from
                let side = if case.q.from == From_::UsersLeftJoinOrders {
                    let s = if *ak == Ak::CountStar {
                        "star"
                    } else if agg.arg % 4 == 3 {
                        "preserved_side_column"
                    } else {
                        "nullable_side_column"
                    };
                    // which tables carry the unit decides how the tracked join treats unmatched rows
                    format!("|outer_join:{s}|{}|pu{}", if case.schema.id_not_declared_unique { "unit_column_not_declared_unique" } else { "unit_column_declared_unique" }, case.schema.pu_variant % 4)
                } else {
                    String::new()
                };
                fails.push(Fail::new(
                    format!("C09|aggregate_differs|{tag}|{null_tag}|{sign}|{group_tag}{side}"),
                    detail(format!("group [{k}] column {name}: original {o}, DP with noise and clipping inactive {d}")),
                ));
                return fails;
            }
        }
        if orig.rows.len() >= 2 {
            multi = true;
        }
    }
    // extra groups must be public key combinations absent from the data, with COUNT 0 and SUM 0/NULL
    for drow in &dpres.rows {
        let k = key_of(drow);
        if orig.rows.iter().any(|o| key_of(o) == k) {
            continue;
        }
        st.class("extra_empty_group");
        for (j, (name, ak)) in r.aggs.iter().enumerate() {
            let d = &drow[nk + j];
            let ok = match ak {
                Ak::Count | Ak::CountStar => num(d) == Some(0.0),
                _ => num(d).map_or(true, |x| x == 0.0),
            };
            if !ok {
                fails.push(Fail::new(format!("C09|extra_group_not_empty|{:?}", ak).to_lowercase(), detail(format!("extra group [{k}] has {name} = {d}"))));
                return fails;
            }
        }
    }
    let nontrivial = (multi || !matches!(case.q.from, From_::Users | From_::Orders | From_::Items)) && case.q.aggs.iter().any(|a| !matches!(a.k, Ak::Count | Ak::CountStar)) && orig.rows.iter().any(|r| r.iter().skip(nk).any(|c| num(c).map_or(false, |x| x != 0.0)));
    if nontrivial {
        st.nontrivial(hash_json(case));
    }
    for a in &case.q.aggs {
        st.class(&format!("agg:{:?}{}", a.k, if a.distinct { "_distinct" } else { "" }).to_lowercase());
    }
    st.class(&format!("from:{from_tag}"));
    st.class(&format!("group:{group_tag}"));
    st.sample(|| json!({"sql": r.sql, "original": show_rows(&orig.rows, 4), "dp_noise_off": show_rows(&dpres.rows, 4), "pu_variant": case.schema.pu_variant}));
    fails
}

pub fn run(ctx: &Ctx, findings: &Findings) -> Report {
    let mut rep = Report::new(
        "C09",
        "exploration",
        "schema users <- orders <- items (+ a public table) with generated measure ranges (positive, negative, zero-containing, single value, value sets, nullable), 1-6 units, 0-14 orders drawn inside the declared types (dangling foreign keys included), four privacy-unit layouts (own column, foreign-key paths of 1-2 steps, unit column on the fact table, row privacy; hashed or not); aggregation queries (COUNT/COUNT(*)/SUM/AVG/VARIANCE/STDDEV, DISTINCT 15 %, expressions over the measure, filters, joins along the unit path and with the public table), ungrouped or grouped by public-valued keys; DP parameters with multiplicity bounds large enough that clipping is inactive; random() forced to 1.0 so every Box-Muller draw is 0. The DP result must contain every group of the original result with equal COUNT/SUM/AVG (relative 1e-6) and equal VARIANCE/STDDEV; extra groups must be empty. Non-trivial = at least two groups or a join, an aggregate other than COUNT, and a non-zero value; distinct by spec hash.",
    );
    rep.assumptions = vec!["SQLite + compatibility UDFs execute both the original and the DP-rewritten SQL; random() = 1.0 makes sqrt(-2 ln u) = 0".into(), "clipping is inactive by construction: privacy_unit_max_multiplicity = 1000 and share = 1.0 exceed every unit's row count".into()];
    rep.legs.push(search(ctx, "C09", "exactness", ctx.cases(6_000, 25), findings, strategy, check));
    rep.require_class("compared", 1_500);
    rep.require_class("group:public_keys", 300);
    rep.require_class("from:ordersjoinusers", 100);
    rep
}

pub fn replay(leg: &str, spec: &J, st: &mut Stats) -> Result<Vec<Fail>, String> {
    let _ = leg;
    Ok(check(&decode::<Case>(spec)?, st))
}
