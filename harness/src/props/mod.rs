use crate::run::*;
use serde_json::Value as J;

pub mod c06;
pub mod c10;
pub mod c11;
pub mod c12;

pub type RunFn = fn(&Ctx, &Findings) -> Report;
pub type ReplayFn = fn(&str, &J, &mut Stats) -> Result<Vec<Fail>, String>;

pub fn lookup(id: &str) -> Option<(RunFn, ReplayFn)> {
    match id {
        "C06" => Some((c06::run, c06::replay)),
        "C10" => Some((c10::run, c10::replay)),
        "C11" => Some((c11::run, c11::replay)),
        "C12" => Some((c12::run, c12::replay)),
        _ => None,
    }
}
