use crate::run::*;
use serde_json::Value as J;

pub mod c11;

pub type RunFn = fn(&Ctx, &Findings) -> Report;
pub type ReplayFn = fn(&str, &J, &mut Stats) -> Result<Vec<Fail>, String>;

pub fn lookup(id: &str) -> Option<(RunFn, ReplayFn)> {
    match id {
        "C11" => Some((c11::run, c11::replay)),
        _ => None,
    }
}
