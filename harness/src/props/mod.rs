use crate::run::*;
use serde_json::Value as J;

pub mod c01;
pub mod c03;
pub mod c04;
pub mod c05;
pub mod c06;
pub mod c09;
pub mod c10;
pub mod c11;
pub mod c12;
pub mod c15;
pub mod c16;
pub mod c17;
pub mod c18;
pub mod dp;
pub mod rules;
pub mod sqlprops;

pub type RunFn = fn(&Ctx, &Findings) -> Report;
pub type ReplayFn = fn(&str, &J, &mut Stats) -> Result<Vec<Fail>, String>;

pub fn lookup(id: &str) -> Option<(RunFn, ReplayFn)> {
    match id {
        "C01" => Some((c01::run, c01::replay)),
        "C02" => Some((rules::run_c02, rules::replay_c02)),
        "C03" => Some((c03::run, c03::replay)),
        "C04" => Some((c04::run, c04::replay)),
        "C05" => Some((c05::run, c05::replay)),
        "C06" => Some((c06::run, c06::replay)),
        "C07" => Some((sqlprops::run_c07, sqlprops::replay_c07)),
        "C08" => Some((sqlprops::run_c08, sqlprops::replay_c08)),
        "C09" => Some((c09::run, c09::replay)),
        "C10" => Some((c10::run, c10::replay)),
        "C11" => Some((c11::run, c11::replay)),
        "C12" => Some((c12::run, c12::replay)),
        "C13" => Some((rules::run_c13, rules::replay_c13)),
        "C14" => Some((sqlprops::run_c14, sqlprops::replay_c14)),
        "C15" => Some((c15::run, c15::replay)),
        "C16" => Some((c16::run, c16::replay)),
        "C17" => Some((c17::run, c17::replay)),
        "C18" => Some((c18::run, c18::replay)),
        _ => None,
    }
}
