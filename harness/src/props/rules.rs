//! C13 — the rewriting search is complete, well-typed and picks a best-scoring derivation (reference model: plain
//! enumeration of all rule assignments) and C02 — no un-noised path from protected tables to a DP / published result
//! (rule-level taint over every candidate rule and every derivation; column lineage of the rewritten plan).
use crate::lineage::Lineage;
use crate::props::c03::NestedCase;
use crate::props::dp::*;
use crate::run::*;
use crate::safe::safe;
use crate::sqlx::privacy::*;
use crate::sqlx::query::{render, Q};
use proptest::prelude::*;
use qrlew::hierarchy::Hierarchy;
use qrlew::With as _;
use qrlew::privacy_unit_tracking::Strategy as PupStrategy;
use qrlew::relation::{Relation, Variant as _};
use qrlew::rewriting::rewriting_rule::{Rewriter, RewritingRulesEliminator, RewritingRulesSelector, RewritingRulesSetter};
use qrlew::rewriting::{Error as RwError, Property, RelationWithDpEvent, RelationWithRewritingRule, RelationWithRewritingRules, RewritingRule};
use qrlew::synthetic_data::SyntheticData;
use serde::{Deserialize, Serialize};
use serde_json::{json, Value as J};
use std::collections::{BTreeSet, HashMap};
use std::sync::Arc;

#[derive(Clone, Debug, Serialize, Deserialize)]
pub enum Src {
    Grammar(Q),
    Dp(DpQuery),
    Nested { template: u8, inner: u8, outer: u8, private_key: bool },
    /// stacked projections over an aggregation; joins / unions with a registered Values relation
    Extra { template: u8, depth: u8, agg: u8 },
}

#[derive(Clone, Debug, Serialize, Deserialize)]
pub struct Case {
    pub schema: DpSchema,
    pub src: Src,
    pub synthetic: bool,
    pub soft: bool,
    pub entry_dp: bool,
    pub dp: DpSpec,
    /// tables live in a schema: path [sch, t], table name sch_t; the privacy unit and the query use the short name
    #[serde(default)]
    pub qualified: bool,
    /// the declared synthetic data does not cover the orders table
    #[serde(default)]
    pub synthetic_partial: bool,
}

pub fn strategy() -> BoxedStrategy<Case> {
    let src = prop_oneof![
        45 => crate::sqlx::query::query_strategy().prop_map(Src::Grammar),
        30 => query_strategy(vec![Group::None, Group::Public, Group::Private, Group::Both], true, true).prop_map(Src::Dp),
        25 => (0u8..8, 0u8..5, 0u8..5, any::<bool>()).prop_map(|(template, inner, outer, private_key)| Src::Nested { template, inner, outer, private_key }),
        14 => (0u8..6, 1u8..5, 0u8..5).prop_map(|(template, depth, agg)| Src::Extra { template, depth, agg }),
    ];
    (schema_strategy(3, 3), src, prop::bool::weighted(0.4), any::<bool>(), prop::bool::weighted(0.6), dp_strategy(), prop::bool::weighted(0.3), prop::bool::weighted(0.25))
        .prop_map(|(schema, src, synthetic, soft, entry_dp, dp, qualified, synthetic_partial)| Case { schema, src, synthetic, soft, entry_dp, dp, qualified, synthetic_partial })
        .boxed()
}

impl Case {
    pub fn sql(&self) -> String {
        match &self.src {
            Src::Grammar(q) => render(&self.schema.db(), q).0,
            Src::Dp(q) => q.render(&self.schema).sql,
            Src::Nested { template, inner, outer, private_key } => {
                NestedCase { schema: self.schema.clone(), dp: self.dp.clone(), template: *template, inner: *inner, outer: *outer, inner_private_key: *private_key }.sql()
            }
            Src::Extra { template, depth, agg } => {
                let a = match agg % 5 {
                    0 => "COUNT(*)",
                    1 => "SUM(x)",
                    2 => "AVG(x)",
                    3 => "COUNT(x)",
                    _ => "MAX(x)",
                };
                let wrap = |inner: String, d: u8| -> String {
                    let mut q = inner;
                    for i in 0..d {
                        q = format!("SELECT k, (c + {}) AS c FROM ({q}) AS s{i}", i + 1);
                    }
                    q
                };
                match template % 6 {
                    0 => wrap(format!("SELECT kind AS k, {a} AS c FROM orders GROUP BY kind"), *depth),
                    1 => "SELECT o.x AS x, o.kind AS kind FROM orders AS o JOIN vals AS v ON o.kind = v.vals".to_string(),
                    2 => "SELECT kind AS a FROM orders UNION SELECT vals AS a FROM vals".to_string(),
                    3 => format!("SELECT v.vals AS k, {a} AS c FROM orders AS o JOIN vals AS v ON o.kind = v.vals GROUP BY v.vals"),
                    4 => wrap(format!("SELECT pk AS k, {a} AS c FROM orders GROUP BY pk"), *depth),
                    _ => wrap(format!("SELECT u.g AS k, {a} AS c FROM orders AS o JOIN users AS u ON o.uid = u.id GROUP BY u.g").replace("(x)", "(o.x)"), *depth),
                }
            }
        }
    }
    pub fn synthetic_data(&self) -> Option<SyntheticData> {
        if !self.synthetic {
            return None;
        }
        let h: Hierarchy<qrlew::expr::identifier::Identifier> = self
            .schema
            .db()
            .tables
            .iter()
            .filter(|t| !(self.synthetic_partial && t.name == "orders"))
            .map(|t| (self.path(&t.name), qrlew::expr::identifier::Identifier::from(format!("syn_{}", t.name))))
            .collect();
        Some(SyntheticData::new(h))
    }
    pub fn path(&self, table: &str) -> Vec<String> {
        if self.qualified {
            vec!["sch".to_string(), table.to_string()]
        } else {
            vec![table.to_string()]
        }
    }
    pub fn table_name(&self, table: &str) -> String {
        if self.qualified {
            format!("sch_{table}")
        } else {
            table.to_string()
        }
    }
    /// the tables (and their synthetic replacements when declared)
    pub fn relations(&self) -> Hierarchy<Arc<Relation>> {
        let db = self.schema.db();
        let mut v: Vec<(Vec<String>, Arc<Relation>)> = vec![];
        for t in &db.tables {
            let Relation::Table(base) = t.relation() else { unreachable!() };
            let tab = qrlew::relation::Table::new(self.table_name(&t.name), self.path(&t.name).into(), base.schema().clone(), base.size().clone());
            v.push((self.path(&t.name), Arc::new(Relation::Table(tab))));
            if self.synthetic {
                let syn = qrlew::relation::Table::new(format!("syn_{}", t.name), vec![format!("syn_{}", t.name)].into(), base.schema().clone(), base.size().clone());
                v.push((vec![format!("syn_{}", t.name)], Arc::new(Relation::Table(syn))));
            }
        }
        use qrlew::builder::Ready;
        if let Ok(vals) = qrlew::relation::Relation::values().name("vals").values([0i64, 1, 2, 3]).try_build() {
            v.push((vec!["vals".to_string()], Arc::new(Relation::Values(vals))));
        }
        v.into_iter().collect()
    }
    pub fn strategy(&self) -> PupStrategy {
        if self.entry_dp || !self.soft {
            PupStrategy::Hard
        } else {
            PupStrategy::Soft
        }
    }
}

fn tag(p: &Property) -> &'static str {
    match p {
        Property::Private => "Priv",
        Property::SyntheticData => "SD",
        Property::PrivacyUnitPreserving => "PUP",
        Property::DifferentiallyPrivate => "DP",
        Property::Published => "Pubd",
        Property::Public => "Pub",
    }
}

fn rule_str(r: &RewritingRule) -> String {
    format!("[{}]>{}", r.inputs().iter().map(tag).collect::<Vec<_>>().join(","), tag(r.output()))
}

fn weight(p: &Property) -> f64 {
    // the scoring of the specification (rewriting_rule.rs: Score)
    match p {
        Property::SyntheticData => 1.0,
        Property::PrivacyUnitPreserving => 2.0,
        Property::DifferentiallyPrivate => 5.0,
        Property::Published => 1.0,
        Property::Public => 10.0,
        Property::Private => 0.0,
    }
}

fn kind(r: &Relation) -> &'static str {
    match r {
        Relation::Table(_) => "table",
        Relation::Map(_) => "map",
        Relation::Reduce(_) => "reduce",
        Relation::Join(_) => "join",
        Relation::Set(_) => "set",
        Relation::Values(_) => "values",
    }
}

/// one derivation of the reference model: (root output, canonical text, score)
#[derive(Clone)]
struct Deriv {
    out: Property,
    text: String,
    score: f64,
}

const MAX_DERIVS: usize = 20_000;

/// every assignment of one candidate rule per node such that the rule's inputs are its children's outputs
fn enumerate(node: &RelationWithRewritingRules, memo: &mut HashMap<*const RelationWithRewritingRules<'static>, Vec<Deriv>>, overflow: &mut bool) -> Vec<Deriv> {
    let key = node as *const RelationWithRewritingRules as *const RelationWithRewritingRules<'static>;
    if let Some(v) = memo.get(&key) {
        return v.clone();
    }
    let children: Vec<Vec<Deriv>> = node.inputs().iter().map(|c| enumerate(c, memo, overflow)).collect();
    let mut out = vec![];
    for rule in node.attributes().iter() {
        if rule.inputs().len() != children.len() {
            continue;
        }
        // cartesian product of the children's derivations with matching outputs
        let mut partial: Vec<(String, f64)> = vec![(String::new(), 0.0)];
        for (i, ch) in children.iter().enumerate() {
            let mut next = vec![];
            for (t, s) in &partial {
                for d in ch.iter().filter(|d| d.out == rule.inputs()[i]) {
                    next.push((format!("{t}{}", d.text), s + d.score));
                    if next.len() > MAX_DERIVS {
                        *overflow = true;
                        break;
                    }
                }
            }
            partial = next;
        }
        for (t, s) in partial {
            out.push(Deriv { out: rule.output().clone(), text: format!("({}{t})", rule_str(rule)), score: s + weight(rule.output()) });
        }
        if out.len() > MAX_DERIVS {
            *overflow = true;
            break;
        }
    }
    memo.insert(key, out.clone());
    out
}

fn canon(node: &RelationWithRewritingRule) -> String {
    format!("({}{})", rule_str(node.attributes()), node.inputs().iter().map(|c| canon(c)).collect::<Vec<_>>().join(""))
}

fn model_score(node: &RelationWithRewritingRule) -> f64 {
    weight(node.attributes().output()) + node.inputs().iter().map(|c| model_score(c)).sum::<f64>()
}

fn well_typed(node: &RelationWithRewritingRule) -> Option<String> {
    let outs: Vec<&Property> = node.inputs().iter().map(|c| c.attributes().output()).collect();
    let ins: Vec<&Property> = node.attributes().inputs().iter().collect();
    if outs != ins {
        return Some(format!("{} node {} applies {} over children labelled [{}]", kind(node.relation()), node.relation().name(), rule_str(node.attributes()), outs.iter().map(|p| tag(p)).collect::<Vec<_>>().join(",")));
    }
    node.inputs().iter().find_map(|c| well_typed(c))
}

fn tainted_label(p: &Property) -> bool {
    matches!(p, Property::Private | Property::PrivacyUnitPreserving)
}

/// independent taint of a derivation: Some(message) on a violation. Returns whether the node is tainted.
fn taint(node: &RelationWithRewritingRule, protected: &[String], viol: &mut Option<String>) -> bool {
    let rule = node.attributes();
    let child_t: Vec<bool> = node.inputs().iter().map(|c| taint(c, protected, viol)).collect();
    let sanitiser = matches!(node.relation(), Relation::Reduce(_)) && rule.inputs() == [Property::PrivacyUnitPreserving] && *rule.output() == Property::DifferentiallyPrivate;
    let t = match node.relation() {
        Relation::Table(t) => protected.iter().any(|p| p == t.name()) && *rule.output() != Property::SyntheticData,
        Relation::Values(_) => false,
        _ => child_t.iter().any(|x| *x) && !sanitiser,
    };
    if t && !tainted_label(rule.output()) && viol.is_none() {
        *viol = Some(format!("{} node {} derives from protected rows without a DP aggregation in between and is labelled {}", kind(node.relation()), node.relation().name(), tag(rule.output())));
    }
    if *rule.output() == Property::DifferentiallyPrivate && !sanitiser && viol.is_none() {
        *viol = Some(format!("{} node {} is labelled DP by rule {}", kind(node.relation()), node.relation().name(), rule_str(rule)));
    }
    t
}

fn signature(r: &RelationWithDpEvent) -> String {
    let mut nodes = vec![];
    crate::ir::all_nodes(r.relation(), &mut nodes);
    let kinds: Vec<&str> = nodes.iter().map(|n| kind(n)).collect();
    let tables: Vec<String> = nodes.iter().filter_map(|n| if let Relation::Table(t) = n { Some(t.name().to_string()) } else { None }).collect();
    // generated column names carry fresh ids: only their presence counts
    let schema: Vec<String> = r
        .relation()
        .schema()
        .iter()
        .map(|f| {
            let n = f.name();
            let n = if n.starts_with("field_") && n.len() == 10 { "field" } else { n };
            format!("{n}: {}", qrlew::data_type::DataTyped::data_type(f))
        })
        .collect();
    format!("{}|{}|{:?}|{}", r.dp_event(), kinds.join(","), tables, schema.join(", "))
}

pub struct Outcome {
    pub c13: Vec<Fail>,
    pub c02: Vec<Fail>,
}

pub fn check_both(case: &Case, st: &mut Stats, want_c13: bool, want_c02: bool) -> Outcome {
    let mut out = Outcome { c13: vec![], c02: vec![] };
    st.eval();
    let db = case.schema.db();
    let sql = case.sql();
    let rels = case.relations();
    let parsed = safe(|| {
        let query = qrlew::sql::relation::parse(&sql).map_err(|e| e.to_string())?;
        Relation::try_from(qrlew::sql::relation::QueryWithRelations::new(&query, &rels)).map_err(|e| e.to_string())
    });
    let rel = match parsed {
        Ok(Ok(r)) => r,
        _ => {
            st.class("not_compiled");
            return out;
        }
    };
    let mut nodes = vec![];
    crate::ir::all_nodes(&rel, &mut nodes);
    if nodes.len() > 14 {
        st.class("tree_too_large");
        return out;
    }
    let protected: Vec<String> = case.schema.protected().iter().map(|s| case.table_name(s)).collect();
    let pu = case.schema.privacy_unit();
    let synth = case.synthetic_data();
    let strategy = case.strategy();
    let setter = RewritingRulesSetter::new(&rels, synth.clone(), pu.clone(), case.dp.params(), strategy);
    let Ok(rwrs) = safe(|| rel.set_rewriting_rules(setter)) else {
        st.class("set_rules_panicked");
        return out;
    };
    let acceptable: &[Property] = if case.entry_dp {
        &[Property::Public, Property::Published, Property::DifferentiallyPrivate, Property::SyntheticData]
    } else {
        &[Property::Public, Property::PrivacyUnitPreserving]
    };
    let entry = if case.entry_dp { "dp" } else { "pup" };
    let ctx = format!("query: {sql}\nprotected tables {protected:?}, synthetic data {}, strategy {strategy:?}, entry point {entry}", case.synthetic);

    // ---- C02, rule level: every candidate rule of every node
    if want_c02 {
        fn walk<'a>(n: &'a RelationWithRewritingRules<'a>, f: &mut dyn FnMut(&'a RelationWithRewritingRules<'a>)) {
            f(n);
            for c in n.inputs() {
                walk(c, f);
            }
        }
        let mut bad: Option<(String, String)> = None;
        let mut nrules = 0u64;
        walk(&rwrs, &mut |n| {
            for rule in n.attributes().iter() {
                nrules += 1;
                let k = kind(n.relation());
                let is_prot_table = matches!(n.relation(), Relation::Table(t) if protected.iter().any(|p| p == t.name()));
                let sanitiser = k == "reduce" && rule.inputs() == [Property::PrivacyUnitPreserving] && *rule.output() == Property::DifferentiallyPrivate;
                let unsound = if k == "table" {
                    is_prot_table && !matches!(rule.output(), Property::Private | Property::PrivacyUnitPreserving | Property::SyntheticData)
                } else {
                    (rule.inputs().iter().any(tainted_label) && !tainted_label(rule.output()) && !sanitiser) || (*rule.output() == Property::DifferentiallyPrivate && !sanitiser)
                };
                if unsound && bad.is_none() {
                    bad = Some((format!("C02|unsound_rule|{k}|{}", rule_str(rule)), format!("{k} node {} carries the candidate rule {}: a label that claims no protected influence is derived from protected inputs\n{ctx}", n.relation().name(), rule_str(rule))));
                }
            }
        });
        st.class_n("candidate_rules_checked", nrules);
        if let Some((k, d)) = bad {
            out.c02.push(Fail::new(k, d));
        }
    }

    // ---- reference model: all consistent assignments
    let mut overflow = false;
    let mut memo = HashMap::new();
    let model = enumerate(&rwrs, &mut memo, &mut overflow);
    if overflow {
        st.class("too_many_derivations");
        return out;
    }
    let model_set: BTreeSet<String> = model.iter().map(|d| d.text.clone()).collect();
    // ---- library: eliminate + select
    let Ok(eliminated) = safe(|| rwrs.map_rewriting_rules(RewritingRulesEliminator)) else {
        st.class("eliminate_panicked");
        return out;
    };
    let lib = safe(|| eliminated.select_rewriting_rules(RewritingRulesSelector));
    let lib: Vec<RelationWithRewritingRule> = match lib {
        Ok(l) => l,
        Err(_) => {
            st.class("select_panicked");
            return out;
        }
    };
    st.class("searched");
    st.class(&format!("entry:{entry}"));
    st.class(&format!("derivations:{}", match model.len() { 0 => "0", 1 => "1", 2..=5 => "2-5", 6..=50 => "6-50", _ => ">50" }));
    let lib_set: BTreeSet<String> = lib.iter().map(|d| canon(d)).collect();
    let model_ok: Vec<&Deriv> = model.iter().filter(|d| acceptable.contains(&d.out)).collect();
    let best = model_ok.iter().map(|d| d.score).fold(f64::NEG_INFINITY, f64::max);

    if want_c13 {
        for d in &lib {
            if let Some(msg) = well_typed(d) {
                out.c13.push(Fail::new("C13|ill_typed_derivation", format!("{msg}\n{ctx}")));
                return out;
            }
        }
        if let Some(m) = model_set.iter().find(|m| !lib_set.contains(*m)) {
            out.c13.push(Fail::new("C13|consistent_derivation_not_found", format!("the reference enumeration has {} derivations, the library returns {}; missing: {m}\n{ctx}", model_set.len(), lib_set.len())));
            return out;
        }
        if let Some(m) = lib_set.iter().find(|m| !model_set.contains(*m)) {
            out.c13.push(Fail::new("C13|derivation_outside_the_rules", format!("the library returns a derivation the candidate rules do not allow: {m}\n{ctx}")));
            return out;
        }
        st.class("derivation_sets_equal");
    }
    // ---- C02 on the derivations
    if want_c02 {
        for d in &lib {
            let mut v = None;
            taint(d, &protected, &mut v);
            if let Some(msg) = v {
                out.c02.push(Fail::new("C02|tainted_derivation", format!("{msg}\nderivation {}\n{ctx}", canon(d))));
                break;
            }
        }
        st.class_n("derivations_taint_checked", lib.len() as u64);
    }
    // ---- the entry point
    let res = safe(|| {
        if case.entry_dp {
            rel.rewrite_with_differential_privacy(&rels, synth.clone(), pu.clone(), case.dp.params())
        } else {
            rel.rewrite_as_privacy_unit_preserving(&rels, synth.clone(), pu.clone(), case.dp.params(), Some(strategy))
        }
    });
    let res = match res {
        Ok(r) => r,
        Err(_) => {
            st.class("rewrite_panicked");
            return out;
        }
    };
    match &res {
        Ok(_) => st.class("rewritten"),
        Err(RwError::UnreachableProperty(_)) => st.class("unreachable"),
        Err(_) => st.class("other_error"),
    }
    if want_c13 {
        match &res {
            Ok(_) if model_ok.is_empty() => {
                out.c13.push(Fail::new(format!("C13|rewritten_without_acceptable_derivation|{entry}"), format!("no consistent derivation has an acceptable root label, yet a rewriting is returned\n{ctx}")));
                return out;
            }
            Err(RwError::UnreachableProperty(_)) if !model_ok.is_empty() => {
                out.c13.push(Fail::new(
                    format!("C13|unreachable_although_derivation_exists|{entry}"),
                    format!("{} consistent derivations have an acceptable root label (e.g. {}), yet the property is reported unreachable\n{ctx}", model_ok.len(), model_ok[0].text),
                ));
                return out;
            }
            _ => {}
        }
    }
    let Ok(rw) = res else { return out };
    // ---- best score: the returned rewriting is the rewriting of some acceptable derivation of maximal score
    if want_c13 {
        let sig = signature(&rw);
        let scores: BTreeSet<i64> = model_ok.iter().map(|d| (d.score * 16.0) as i64).collect();
        let mut matched_best = false;
        let mut matched_other: Option<f64> = None;
        let mut rewrite_failed = false;
        for d in lib.iter().filter(|d| acceptable.contains(d.attributes().output())) {
            let s = model_score(d);
            let Ok(r2) = safe(|| d.rewrite(Rewriter::new(&rels))) else {
                rewrite_failed = true;
                continue;
            };
            if signature(&r2) == sig {
                if s >= best - 1e-9 {
                    matched_best = true;
                } else if matched_other.map_or(true, |x| s > x) {
                    matched_other = Some(s);
                }
            }
        }
        if !matched_best && !rewrite_failed {
            match matched_other {
                Some(s) => {
                    out.c13.push(Fail::new(format!("C13|not_best_scoring|{entry}"), format!("the returned rewriting is that of a derivation of score {s}; acceptable derivations reach {best}\n{ctx}")));
                    return out;
                }
                None => {
                    // generated names occasionally collide inside one plan and change the outcome from call to call
                    // (a recorded C17 finding): only a stable mismatch counts
                    let again = safe(|| {
                        if case.entry_dp {
                            rel.rewrite_with_differential_privacy(&rels, synth.clone(), pu.clone(), case.dp.params())
                        } else {
                            rel.rewrite_as_privacy_unit_preserving(&rels, synth.clone(), pu.clone(), case.dp.params(), Some(strategy))
                        }
                    });
                    let stable = matches!(&again, Ok(Ok(r2)) if signature(r2) == sig);
                    // three more rounds: the mismatch must persist in every one of them
                    let mut identified_later = false;
                    for _ in 0..3 {
                        let r3 = safe(|| {
                            if case.entry_dp {
                                rel.rewrite_with_differential_privacy(&rels, synth.clone(), pu.clone(), case.dp.params())
                            } else {
                                rel.rewrite_as_privacy_unit_preserving(&rels, synth.clone(), pu.clone(), case.dp.params(), Some(strategy))
                            }
                        });
                        let Ok(Ok(r3)) = r3 else { continue };
                        let s3 = signature(&r3);
                        if lib.iter().filter(|d| acceptable.contains(d.attributes().output())).any(|d| safe(|| d.rewrite(Rewriter::new(&rels))).map_or(false, |r2| signature(&r2) == s3)) {
                            identified_later = true;
                            break;
                        }
                    }
                    let any_now = identified_later;
                    if !stable || any_now {
                        st.class("rewriting_not_stable_between_calls");
                        return out;
                    }
                    out.c13.push(Fail::new(
                        format!("C13|returned_rewriting_of_no_acceptable_derivation|{entry}"),
                        format!("the returned rewriting (event {}, output {}) is the rewriting of none of the {} acceptable derivations\n{ctx}", rw.dp_event(), rw.relation().schema(), model_ok.len()),
                    ));
                    return out;
                }
            }
        } else if matched_best {
            st.class("best_score_confirmed");
            if scores.len() >= 2 {
                st.class("several_scores_to_choose_from");
                st.nontrivial(hash_json(case));
            }
        }
    }
    // ---- C02, plan level: column lineage of the returned relation (DP entry point)
    if want_c02 && case.entry_dp {
        let protected_paths: Vec<Vec<String>> = case.schema.protected().iter().map(|t| case.path(t)).collect();
        let mut lin = Lineage::new_with_paths(protected.clone(), protected_paths);
        let l = lin.of(rw.relation());
        st.class("lineage_computed");
        let root_label = lib.iter().filter(|d| acceptable.contains(d.attributes().output())).map(|d| tag(d.attributes().output())).collect::<BTreeSet<_>>();
        let raw_cols: Vec<&String> = l.names.iter().zip(l.raw.iter()).filter(|(_, r)| **r).map(|(n, _)| n).collect();
        if !raw_cols.is_empty() || l.supp_raw || l.mult_raw {
            let what = if !raw_cols.is_empty() { "column" } else { "rows" };
            let srck = match &case.src {
                Src::Grammar(_) => "grammar",
                Src::Dp(_) => "aggregation",
                Src::Nested { .. } => "nested",
                Src::Extra { .. } => "extra",
            };
            out.c02.push(Fail::new(
                format!("C02|raw_{what}_in_dp_result|{srck}"),
                format!(
                    "the relation returned by the DP compiler has output columns {raw_cols:?} (row set raw: {}, multiplicity raw: {}) that depend on protected rows without a noise term or a thresholded key release in between\nroot labels available {root_label:?}; event {}; tables read by the plan: {:?}\n{ctx}",
                    l.supp_raw,
                    l.mult_raw,
                    rw.dp_event(),
                    {
                        let mut nodes = vec![];
                        crate::ir::all_nodes(rw.relation(), &mut nodes);
                        nodes.iter().filter_map(|n| if let Relation::Table(t) = n { Some(t.name().to_string()) } else { None }).collect::<Vec<_>>()
                    }
                ),
            ));
        }
        let has_noise = !crate::ir::analyze(rw.relation()).noise_maps.is_empty();
        if has_noise {
            st.class("plan_with_noise");
            if want_c02 && !want_c13 {
                st.nontrivial(hash_json(case));
            }
        }
        if !lin.unknown.borrow().is_empty() {
            st.class("lineage_unknown_shape");
        }
    }
    st.sample(|| json!({"sql": sql, "entry": entry, "synthetic": case.synthetic, "derivations": model.len(), "acceptable": model_ok.len(), "best_score": if best.is_finite() { json!(best) } else { json!(null) }}));
    out
}

pub fn check_c13(case: &Case, st: &mut Stats) -> Vec<Fail> {
    check_both(case, st, true, false).c13
}

pub fn check_c02(case: &Case, st: &mut Stats) -> Vec<Fail> {
    check_both(case, st, false, true).c02
}

pub fn run_c13(ctx: &Ctx, findings: &Findings) -> Report {
    let mut rep = Report::new(
        "C13",
        "exploration",
        "relation trees (<= 14 nodes) from the general query grammar (maps, filters, joins of every kind, set operations, CTEs, sub-queries, aggregations), from DP aggregation queries and from nested DP sub-query templates x four privacy-unit layouts (protected / public table mixes, foreign-key paths, row privacy) x with/without synthetic data x Soft/Hard strategy x both entry points. Reference model: plain enumeration of every assignment of one candidate rule per node with rule inputs = children outputs. Non-trivial = the acceptable derivations have at least two different scores and the returned rewriting was identified as one of maximal score; distinct by spec hash.",
    );
    rep.assumptions = vec![
        "the candidate rules attached by set_rewriting_rules are the given of the statement; their soundness is C02's subject".into(),
        "score weights are the specification's (SD 1, PUP 2, DP 5, Published 1, Public 10, Private 0)".into(),
        "the returned rewriting is identified with a derivation by its privacy event, node-kind sequence, table names and output schema (noise expressions and node names carry fresh ids and cannot be compared textually)".into(),
    ];
    rep.legs.push(search(ctx, "C13", "search", ctx.cases(16_000, 20), findings, strategy, check_c13));
    rep.require_class("derivation_sets_equal", 3_000);
    rep.require_class("best_score_confirmed", 1_000);
    rep.require_class("several_scores_to_choose_from", 300);
    rep.require_class("unreachable", 100);
    rep
}

pub fn run_c02(ctx: &Ctx, findings: &Findings) -> Report {
    let mut rep = Report::new(
        "C02",
        "exploration",
        "same programs as C13 (general grammar, DP aggregations, nested DP sub-queries; protected/public mixes, synthetic data, both strategies, both entry points). Rule level: every candidate rule of every node and every selected derivation is checked against an independent taint (protected table tainted unless replaced by synthetic data; taint propagates through every node except a Reduce applying PUP -> DP; tainted nodes may only be labelled Private or PUP). Plan level: column lineage of the relation returned by rewrite_with_differential_privacy (sanitisers: Gaussian noise term, filter over noised counts; LEFT JOIN preserves the support of the released-keys side) must leave no raw column, row set or multiplicity at the root. Non-trivial = the returned plan contains a noise term; distinct by spec hash.",
    );
    rep.assumptions = vec![
        "lineage is a conservative syntactic analysis of the produced plan, not a non-interference proof; whether clipping matches sigma is C01/C03's subject".into(),
        "synthetic replacements are recognised by their table name (prefix _SYNTHETIC_)".into(),
    ];
    rep.legs.push(search(ctx, "C02", "taint", ctx.cases(16_000, 20), findings, strategy, check_c02));
    rep.require_class("candidate_rules_checked", 50_000);
    rep.require_class("derivations_taint_checked", 5_000);
    rep.require_class("plan_with_noise", 600);
    rep
}

pub fn replay_c13(leg: &str, spec: &J, st: &mut Stats) -> Result<Vec<Fail>, String> {
    let _ = leg;
    Ok(check_c13(&decode::<Case>(spec)?, st))
}

pub fn replay_c02(leg: &str, spec: &J, st: &mut Stats) -> Result<Vec<Fail>, String> {
    let _ = leg;
    Ok(check_c02(&decode::<Case>(spec)?, st))
}
