//! C15 — name resolution: exact or unique-suffix match, never an arbitrary candidate.
use crate::run::*;
use crate::safe::safe;
use proptest::prelude::*;
use qrlew::hierarchy::Hierarchy;
use serde::{Deserialize, Serialize};
use serde_json::{json, Value as J};

const ALPHA: [&str; 4] = ["a", "b", "c", "d"];

#[derive(Clone, Debug, Serialize, Deserialize)]
pub enum Lookup {
    /// the key of entry i (mod n), keeping only the last k components (0 = whole key)
    SuffixOf(u16, u8),
    /// the key of entry i with a component prepended
    Extend(u16, u8),
    /// the key of entry i with one component replaced
    Mutate(u16, u8, u8),
    Fresh(Vec<u8>),
}

#[derive(Clone, Debug, Serialize, Deserialize)]
pub struct MapCase {
    pub entries: Vec<Vec<u8>>,
    pub lookups: Vec<Lookup>,
}

pub fn map_strategy() -> BoxedStrategy<MapCase> {
    let path = proptest::collection::vec(0u8..4, 0..5);
    let lookup = prop_oneof![
        35 => (any::<u16>(), 0u8..4).prop_map(|(i, k)| Lookup::SuffixOf(i, k)),
        15 => (any::<u16>(), 0u8..4).prop_map(|(i, c)| Lookup::Extend(i, c)),
        20 => (any::<u16>(), 0u8..4, 0u8..4).prop_map(|(i, p, c)| Lookup::Mutate(i, p, c)),
        30 => path.clone().prop_map(Lookup::Fresh),
    ];
    (proptest::collection::vec(path, 0..12), proptest::collection::vec(lookup, 1..12))
        .prop_map(|(entries, lookups)| MapCase { entries, lookups })
        .boxed()
}

fn to_path(p: &[u8]) -> Vec<String> {
    p.iter().map(|c| ALPHA[*c as usize % 4].to_string()).collect()
}

/// Reference model: exact key, else the unique entry agreeing on every trailing component both have, else nothing.
pub fn model<'a>(entries: &'a [(Vec<String>, i64)], path: &[String]) -> (Option<&'a (Vec<String>, i64)>, usize) {
    if let Some(e) = entries.iter().find(|(k, _)| k.as_slice() == path) {
        return (Some(e), 1);
    }
    let cands: Vec<&(Vec<String>, i64)> = entries
        .iter()
        .filter(|(k, _)| k.iter().rev().zip(path.iter().rev()).all(|(a, b)| a == b))
        .collect();
    if cands.len() == 1 {
        (Some(cands[0]), 1)
    } else {
        (None, cands.len())
    }
}

pub fn check_map(case: &MapCase, st: &mut Stats) -> Vec<Fail> {
    let mut fails = vec![];
    // distinct keys, value = index
    let mut entries: Vec<(Vec<String>, i64)> = vec![];
    for (i, e) in case.entries.iter().enumerate() {
        let p = to_path(e);
        if !entries.iter().any(|(k, _)| *k == p) {
            entries.push((p, i as i64));
        }
    }
    let h: Hierarchy<i64> = entries.iter().map(|(k, v)| (k.clone(), *v)).collect();
    let n = entries.len().max(1);
    let mut nt = false;
    for l in &case.lookups {
        let path: Vec<String> = match l {
            Lookup::SuffixOf(i, k) => {
                let key = entries.get((*i as usize * n) >> 16).map(|e| e.0.clone()).unwrap_or_default();
                let k = *k as usize;
                if k == 0 || k >= key.len() {
                    key
                } else {
                    key[key.len() - k..].to_vec()
                }
            }
            Lookup::Extend(i, c) => {
                let mut key = entries.get((*i as usize * n) >> 16).map(|e| e.0.clone()).unwrap_or_default();
                key.insert(0, ALPHA[*c as usize % 4].to_string());
                key
            }
            Lookup::Mutate(i, p, c) => {
                let mut key = entries.get((*i as usize * n) >> 16).map(|e| e.0.clone()).unwrap_or_default();
                if !key.is_empty() {
                    let pos = *p as usize % key.len();
                    key[pos] = ALPHA[*c as usize % 4].to_string();
                }
                key
            }
            Lookup::Fresh(p) => to_path(p),
        };
        st.eval();
        let (expect, ncand) = model(&entries, &path);
        let exact = entries.iter().any(|(k, _)| *k == path);
        let class = if exact {
            "exact"
        } else if ncand == 0 {
            "none"
        } else if ncand == 1 {
            "unique_suffix"
        } else {
            "ambiguous"
        };
        st.class(&format!("lookup:{class}"));
        if ncand >= 2 || (exact && entries.iter().filter(|(k, _)| k.iter().rev().zip(path.iter().rev()).all(|(a, b)| a == b)).count() >= 2) {
            nt = true;
            st.class("lookup_with_2plus_candidates");
        }
        let show = |e: Option<(&[String], &i64)>| e.map(|(k, v)| format!("{}={v}", k.join(".")));
        let got_kv = safe(|| h.get_key_value(&path).map(|(k, v)| (k.to_vec(), *v)));
        let got = safe(|| h.get(&path).copied());
        let got_idx = safe(|| h[path.clone()]);
        let want = expect.map(|(k, v)| (k.clone(), *v));
        match &got_kv {
            Ok(g) if *g == want => {}
            Ok(g) => fails.push(Fail::new(
                format!("C15|get_key_value|{class}|{}", if g.is_some() { "bound" } else { "unbound" }),
                format!("entries {:?}, lookup {:?}: get_key_value = {:?}, model = {:?}", entries.iter().map(|(k, _)| k.join(".")).collect::<Vec<_>>(), path.join("."), g, want),
            )),
            Err(pn) => fails.push(Fail::new(format!("C15|get_key_value|panic|{}", pn.file_line()), format!("lookup {:?} panicked: {}", path, pn.msg))),
        }
        match &got {
            Ok(g) if *g == want.as_ref().map(|x| x.1) => {}
            Ok(g) => fails.push(Fail::new(
                format!("C15|get|{class}|{}", if g.is_some() { "bound" } else { "unbound" }),
                format!("entries {:?}, lookup {:?}: get = {:?}, model = {:?}", entries.iter().map(|(k, _)| k.join(".")).collect::<Vec<_>>(), path.join("."), g, want),
            )),
            Err(pn) => fails.push(Fail::new(format!("C15|get|panic|{}", pn.file_line()), format!("lookup {:?} panicked: {}", path, pn.msg))),
        }
        match (&got_idx, &want) {
            (Ok(v), Some((_, w))) if v == w => {}
            (Err(_), None) => {}
            (g, w) => fails.push(Fail::new(
                format!("C15|index|{class}"),
                format!("entries {:?}, lookup {:?}: Index = {:?}, model = {:?}", entries.iter().map(|(k, _)| k.join(".")).collect::<Vec<_>>(), path.join("."), g.as_ref().ok(), w),
            )),
        }
        let _ = show;
    }
    if nt {
        st.nontrivial(hash_json(case));
    }
    st.sample(|| json!({"entries": entries.iter().map(|(k, _)| k.join(".")).collect::<Vec<_>>(), "lookups": case.lookups.iter().take(4).map(|l| format!("{l:?}")).collect::<Vec<_>>()}));
    fails
}

pub fn run(ctx: &Ctx, findings: &Findings) -> Report {
    let mut rep = Report::new(
        "C15",
        "exploration",
        "path maps: 0-11 entries with components from a 4-letter alphabet (dense suffix sharing, nested prefixes, entries that are suffixes of one another, the empty path), 1-11 lookups each (suffixes, extensions and one-component mutations of existing keys, fresh paths); get, get_key_value and Index are compared with a reference model (exact key, else the unique entry agreeing on every trailing component both have, else nothing) on every lookup. Non-trivial = a lookup with >= 2 suffix candidates; distinct by spec hash.",
    );
    rep.assumptions = vec!["the reference model is the property statement transcribed (20 lines)".into()];
    rep.legs.push(search(ctx, "C15", "maps", ctx.cases(3_000_000, 20), findings, map_strategy, check_map));
    rep.require_class("lookup:ambiguous", 10_000);
    rep.require_class("lookup:unique_suffix", 10_000);
    rep.require_class("lookup:exact", 10_000);
    rep.require_class("lookup:none", 10_000);
    rep
}

pub fn replay(leg: &str, spec: &J, st: &mut Stats) -> Result<Vec<Fail>, String> {
    match leg {
        "maps" => Ok(check_map(&decode::<MapCase>(spec)?, st)),
        _ => Err(format!("unknown leg {leg}")),
    }
}
