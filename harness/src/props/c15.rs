//! C15 — name resolution: exact or unique-suffix match, never an arbitrary candidate.
use crate::run::*;
use crate::safe::safe;
use proptest::prelude::*;
use qrlew::hierarchy::Hierarchy;
use serde::{Deserialize, Serialize};
use serde_json::{json, Value as J};

const ALPHA: [&str; 4] = ["a", "b", "c", "d"];

#[derive(Clone, Debug, Serialize, Deserialize)]
pub enum Lookup {
    /// the key of entry i (mod n), keeping only the last k components (0 = whole key)
    SuffixOf(u16, u8),
    /// the key of entry i with a component prepended
    Extend(u16, u8),
    /// the key of entry i with one component replaced
    Mutate(u16, u8, u8),
    Fresh(Vec<u8>),
}

#[derive(Clone, Debug, Serialize, Deserialize)]
pub struct MapCase {
    pub entries: Vec<Vec<u8>>,
    pub lookups: Vec<Lookup>,
}

pub fn map_strategy() -> BoxedStrategy<MapCase> {
    let path = proptest::collection::vec(0u8..4, 0..5);
    let lookup = prop_oneof![
        35 => (any::<u16>(), 0u8..4).prop_map(|(i, k)| Lookup::SuffixOf(i, k)),
        15 => (any::<u16>(), 0u8..4).prop_map(|(i, c)| Lookup::Extend(i, c)),
        20 => (any::<u16>(), 0u8..4, 0u8..4).prop_map(|(i, p, c)| Lookup::Mutate(i, p, c)),
        30 => path.clone().prop_map(Lookup::Fresh),
    ];
    (proptest::collection::vec(path, 0..12), proptest::collection::vec(lookup, 1..12))
        .prop_map(|(entries, lookups)| MapCase { entries, lookups })
        .boxed()
}

fn to_path(p: &[u8]) -> Vec<String> {
    p.iter().map(|c| ALPHA[*c as usize % 4].to_string()).collect()
}

/// Reference model: exact key, else the unique entry agreeing on every trailing component both have, else nothing.
pub fn model<'a>(entries: &'a [(Vec<String>, i64)], path: &[String]) -> (Option<&'a (Vec<String>, i64)>, usize) {
    if let Some(e) = entries.iter().find(|(k, _)| k.as_slice() == path) {
        return (Some(e), 1);
    }
    let cands: Vec<&(Vec<String>, i64)> = entries
        .iter()
        .filter(|(k, _)| k.iter().rev().zip(path.iter().rev()).all(|(a, b)| a == b))
        .collect();
    if cands.len() == 1 {
        (Some(cands[0]), 1)
    } else {
        (None, cands.len())
    }
}

pub fn check_map(case: &MapCase, st: &mut Stats) -> Vec<Fail> {
    let mut fails = vec![];
    // distinct keys, value = index
    let mut entries: Vec<(Vec<String>, i64)> = vec![];
    for (i, e) in case.entries.iter().enumerate() {
        let p = to_path(e);
        if !entries.iter().any(|(k, _)| *k == p) {
            entries.push((p, i as i64));
        }
    }
    let h: Hierarchy<i64> = entries.iter().map(|(k, v)| (k.clone(), *v)).collect();
    let n = entries.len().max(1);
    let mut nt = false;
    for l in &case.lookups {
        let path: Vec<String> = match l {
            Lookup::SuffixOf(i, k) => {
                let key = entries.get((*i as usize * n) >> 16).map(|e| e.0.clone()).unwrap_or_default();
                let k = *k as usize;
                if k == 0 || k >= key.len() {
                    key
                } else {
                    key[key.len() - k..].to_vec()
                }
            }
            Lookup::Extend(i, c) => {
                let mut key = entries.get((*i as usize * n) >> 16).map(|e| e.0.clone()).unwrap_or_default();
                key.insert(0, ALPHA[*c as usize % 4].to_string());
                key
            }
            Lookup::Mutate(i, p, c) => {
                let mut key = entries.get((*i as usize * n) >> 16).map(|e| e.0.clone()).unwrap_or_default();
                if !key.is_empty() {
                    let pos = *p as usize % key.len();
                    key[pos] = ALPHA[*c as usize % 4].to_string();
                }
                key
            }
            Lookup::Fresh(p) => to_path(p),
        };
        st.eval();
        let (expect, ncand) = model(&entries, &path);
        let exact = entries.iter().any(|(k, _)| *k == path);
        let class = if exact {
            "exact"
        } else if ncand == 0 {
            "none"
        } else if ncand == 1 {
            "unique_suffix"
        } else {
            "ambiguous"
        };
        st.class(&format!("lookup:{class}"));
        if ncand >= 2 || (exact && entries.iter().filter(|(k, _)| k.iter().rev().zip(path.iter().rev()).all(|(a, b)| a == b)).count() >= 2) {
            nt = true;
            st.class("lookup_with_2plus_candidates");
        }
        let show = |e: Option<(&[String], &i64)>| e.map(|(k, v)| format!("{}={v}", k.join(".")));
        let got_kv = safe(|| h.get_key_value(&path).map(|(k, v)| (k.to_vec(), *v)));
        let got = safe(|| h.get(&path).copied());
        let got_idx = safe(|| h[path.clone()]);
        let want = expect.map(|(k, v)| (k.clone(), *v));
        match &got_kv {
            Ok(g) if *g == want => {}
            Ok(g) => fails.push(Fail::new(
                format!("C15|get_key_value|{class}|{}", if g.is_some() { "bound" } else { "unbound" }),
                format!("entries {:?}, lookup {:?}: get_key_value = {:?}, model = {:?}", entries.iter().map(|(k, _)| k.join(".")).collect::<Vec<_>>(), path.join("."), g, want),
            )),
            Err(pn) => fails.push(Fail::new(format!("C15|get_key_value|panic|{}", pn.file_line()), format!("lookup {:?} panicked: {}", path, pn.msg))),
        }
        match &got {
            Ok(g) if *g == want.as_ref().map(|x| x.1) => {}
            Ok(g) => fails.push(Fail::new(
                format!("C15|get|{class}|{}", if g.is_some() { "bound" } else { "unbound" }),
                format!("entries {:?}, lookup {:?}: get = {:?}, model = {:?}", entries.iter().map(|(k, _)| k.join(".")).collect::<Vec<_>>(), path.join("."), g, want),
            )),
            Err(pn) => fails.push(Fail::new(format!("C15|get|panic|{}", pn.file_line()), format!("lookup {:?} panicked: {}", path, pn.msg))),
        }
        match (&got_idx, &want) {
            (Ok(v), Some((_, w))) if v == w => {}
            (Err(_), None) => {}
            (g, w) => fails.push(Fail::new(
                format!("C15|index|{class}"),
                format!("entries {:?}, lookup {:?}: Index = {:?}, model = {:?}", entries.iter().map(|(k, _)| k.join(".")).collect::<Vec<_>>(), path.join("."), g.as_ref().ok(), w),
            )),
        }
        let _ = show;
    }
    if nt {
        st.nontrivial(hash_json(case));
    }
    st.sample(|| json!({"entries": entries.iter().map(|(k, _)| k.join(".")).collect::<Vec<_>>(), "lookups": case.lookups.iter().take(4).map(|l| format!("{l:?}")).collect::<Vec<_>>()}));
    fails
}


// ---------------------------------------------------------------------------------------------
// Leg 2: column references in queries over tables that live in schemas (s1.t, s2.t, s2.u)

#[derive(Clone, Debug, Serialize, Deserialize)]
pub struct ColCase {
    /// left / right table of the join: index into [s1.t, s2.t, s2.u, s1.u]
    pub left: u8,
    pub right: u8,
    pub alias_left: bool,
    pub alias_right: bool,
    /// how the selected column is written: 0 bare, 1 table.col, 2 schema.table.col, 3 alias.col
    pub form: u8,
    /// which side the reference is meant for and which column (0 id, 1 a, 2 only_<table>)
    pub side: bool,
    pub col: u8,
    pub join: u8,
}

pub fn col_strategy() -> BoxedStrategy<ColCase> {
    (0u8..4, 0u8..4, any::<bool>(), any::<bool>(), 0u8..4, any::<bool>(), 0u8..3, 0u8..3)
        .prop_map(|(left, right, alias_left, alias_right, form, side, col, join)| ColCase { left, right, alias_left, alias_right, form, side, col, join })
        .boxed()
}

const QT: [(&str, &str); 4] = [("s1", "t"), ("s2", "t"), ("s2", "u"), ("s1", "u")];

/// every table has id, a (a distinctive range per table) and one column of its own
fn q_relations() -> Hierarchy<std::sync::Arc<qrlew::relation::Relation>> {
    use qrlew::data_type::DataType;
    use qrlew::relation::{Field, Relation, Schema, Table};
    QT.iter()
        .enumerate()
        .map(|(i, (s, t))| {
            let lo = 100 * i as i64;
            let fields = vec![
                Field::new("id".into(), DataType::integer_interval(0, 50), None),
                Field::new("a".into(), DataType::integer_interval(lo, lo + 10), None),
                Field::new(format!("only_{s}_{t}"), DataType::integer_interval(lo + 20, lo + 30), None),
            ];
            let tab = Table::new(format!("{s}_{t}"), vec![s.to_string(), t.to_string()].into(), Schema::new(fields), qrlew::data_type::Integer::from_value(10));
            (vec![s.to_string(), t.to_string()], std::sync::Arc::new(Relation::Table(tab)))
        })
        .collect()
}

pub fn check_cols(case: &ColCase, st: &mut Stats) -> Vec<Fail> {
    use qrlew::relation::Variant as _;
    let mut fails = vec![];
    let (li, ri) = (case.left as usize % 4, case.right as usize % 4);
    if li == ri {
        st.reject();
        return fails;
    }
    st.eval();
    // how each side can be named in the query
    let side = |i: usize, aliased: bool, al: &str| -> (String, Vec<Vec<String>>) {
        let (s, t) = QT[i];
        if aliased {
            (format!("{s}.{t} AS {al}"), vec![vec![al.to_string()]])
        } else {
            // a table written s.t is visible as s.t and, by suffix, as t
            (format!("{s}.{t}"), vec![vec![s.to_string(), t.to_string()]])
        }
    };
    let (lsql, lq) = side(li, case.alias_left, "l");
    let (rsql, rq) = side(ri, case.alias_right, "r");
    // visible columns: (qualifier path, column, table index)
    let mut visible: Vec<(Vec<String>, String, usize)> = vec![];
    for (quals, i) in [(&lq, li), (&rq, ri)] {
        let (s, t) = QT[i];
        for c in ["id".to_string(), "a".to_string(), format!("only_{s}_{t}")] {
            visible.push((quals[0].clone(), c, i));
        }
    }
    let target = if case.side { ri } else { li };
    let (ts, tt) = QT[target];
    let col = match case.col % 3 {
        0 => "id".to_string(),
        1 => "a".to_string(),
        _ => format!("only_{ts}_{tt}"),
    };
    let aliased = if case.side { case.alias_right } else { case.alias_left };
    let written: Vec<String> = match case.form % 4 {
        0 => vec![col.clone()],
        1 => vec![if aliased { if case.side { "r".into() } else { "l".into() } } else { tt.to_string() }, col.clone()],
        2 if !aliased => vec![ts.to_string(), tt.to_string(), col.clone()],
        _ => vec![if aliased { if case.side { "r".to_string() } else { "l".to_string() } } else { tt.to_string() }, col.clone()],
    };
    // reference model: the written path must be a suffix of exactly one visible column path
    let cands: Vec<usize> = visible
        .iter()
        .filter(|(q, c, _)| {
            let mut full = q.clone();
            full.push(c.clone());
            full.len() >= written.len() && full[full.len() - written.len()..] == written[..]
        })
        .map(|(_, _, i)| *i)
        .collect();
    let join_cond = {
        let name = |quals: &Vec<Vec<String>>| quals[0].join(".");
        format!("{}.id = {}.id", name(&lq), name(&rq))
    };
    let kw = ["JOIN", "LEFT JOIN", "FULL JOIN"][case.join as usize % 3];
    let sql = format!("SELECT {} AS x FROM {lsql} {kw} {rsql} ON {join_cond}", written.join("."));
    let rels = q_relations();
    let res = crate::safe::safe(|| {
        let q = qrlew::sql::relation::parse(&sql).map_err(|e| e.to_string())?;
        qrlew::relation::Relation::try_from(qrlew::sql::relation::QueryWithRelations::new(&q, &rels)).map_err(|e| e.to_string())
    });
    let class = match cands.len() {
        0 => "none",
        1 => "unique",
        _ => "ambiguous",
    };
    st.class(&format!("column:{class}"));
    let form = ["bare", "table.col", "schema.table.col", "alias_or_table.col"][case.form as usize % 4];
    match (cands.len(), res) {
        (1, Ok(Ok(rel))) => {
            // the range of column a / only_* tells which table the reference was bound to
            let dt = qrlew::data_type::DataTyped::data_type(rel.schema().iter().next().unwrap()).to_string();
            if col != "id" {
                let lo = 100 * cands[0] as i64 + if col == "a" { 0 } else { 20 };
                let bound_to_expected = dt.contains(&format!("[{} {}]", lo, lo + 10));
                if !bound_to_expected {
                    fails.push(Fail::new(format!("C15|column_bound_to_wrong_table|{form}"), format!("{sql}\nthe reference designates {}.{} (range starting at {lo}) but the output column has type {dt}", QT[cands[0]].0, QT[cands[0]].1)));
                }
                st.nontrivial(hash_json(case));
            }
        }
        (1, Ok(Err(e))) => fails.push(Fail::new(format!("C15|unique_column_refused|{form}"), format!("{sql}\nexactly one visible column matches, but: {e}"))),
        (n, Ok(Ok(rel))) if n != 1 => {
            let dt = qrlew::data_type::DataTyped::data_type(rel.schema().iter().next().unwrap()).to_string();
            fails.push(Fail::new(format!("C15|{class}_column_accepted|{form}"), format!("{sql}\n{n} visible columns match the reference, yet it was bound (output type {dt})")));
        }
        (_, Err(p)) => {
            // totality is C18's subject; an ambiguous reference answered by a panic is still not an arbitrary binding
            st.class(&format!("column_panic:{}", p.file_line()));
        }
        _ => {}
    }
    st.sample(|| json!({"sql": sql, "candidates": cands.len()}));
    fails
}

pub fn run(ctx: &Ctx, findings: &Findings) -> Report {
    let mut rep = Report::new(
        "C15",
        "exploration",
        "path maps: 0-11 entries with components from a 4-letter alphabet (dense suffix sharing, nested prefixes, entries that are suffixes of one another, the empty path), 1-11 lookups each (suffixes, extensions and one-component mutations of existing keys, fresh paths); get, get_key_value and Index are compared with a reference model (exact key, else the unique entry agreeing on every trailing component both have, else nothing) on every lookup. Non-trivial = a lookup with >= 2 suffix candidates; distinct by spec hash.",
    );
    rep.assumptions = vec!["the reference model is the property statement transcribed (20 lines)".into()];
    rep.legs.push(search(ctx, "C15", "maps", ctx.cases(3_000_000, 20), findings, map_strategy, check_map));
    rep.legs.push(search(ctx, "C15", "columns", ctx.cases(20_000, 10), findings, col_strategy, check_cols));
    rep.require_class("column:unique", 3_000);
    rep.require_class("column:ambiguous", 1_000);
    rep.require_class("lookup:ambiguous", 10_000);
    rep.require_class("lookup:unique_suffix", 10_000);
    rep.require_class("lookup:exact", 10_000);
    rep.require_class("lookup:none", 10_000);
    rep
}

pub fn replay(leg: &str, spec: &J, st: &mut Stats) -> Result<Vec<Fail>, String> {
    match leg {
        "maps" => Ok(check_map(&decode::<MapCase>(spec)?, st)),
        "columns" => Ok(check_cols(&decode::<ColCase>(spec)?, st)),
        _ => Err(format!("unknown leg {leg}")),
    }
}
