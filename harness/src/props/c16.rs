//! C16 — compilation is deterministic (any order, any thread) and rendering is a fixpoint.
use crate::props::sqlprops::{compile, feature, render_relation, with_db, Compiled};
use crate::run::*;
use crate::safe::safe;
use crate::sqlx::db::*;
use crate::sqlx::exec::*;
use crate::sqlx::privacy::*;
use crate::sqlx::query::*;
use proptest::prelude::*;
use qrlew::data_type::DataTyped as _;
use qrlew::relation::{Relation, Variant as _};
use serde::{Deserialize, Serialize};
use serde_json::{json, Value as J};

#[derive(Clone, Debug, Serialize, Deserialize)]
pub struct Case {
    pub db: DbSpec,
    pub queries: Vec<Q>,
    /// add a RANDOM() item to the target query (generated names then involve the global counter)
    pub with_random: bool,
    pub dp_between: bool,
    pub reset_between: bool,
    pub threads: u8,
    pub rotate: u8,
}

pub fn strategy() -> BoxedStrategy<Case> {
    (
        db_strategy(3, 6),
        proptest::collection::vec(query_strategy(), 2..5),
        prop::bool::weighted(0.15),
        prop::bool::weighted(0.3),
        prop::bool::weighted(0.2),
        2u8..6,
        0u8..5,
    )
        .prop_map(|(db, queries, with_random, dp_between, reset_between, threads, rotate)| Case { db, queries, with_random, dp_between, reset_between, threads, rotate })
        .boxed()
}

fn sql_of(case: &Case, i: usize) -> (String, Info) {
    let (s, info) = render(&case.db, &case.queries[i]);
    if i == 0 && case.with_random {
        (format!("SELECT *, RANDOM() AS rnd FROM ({s}) AS zz"), info)
    } else {
        (s, info)
    }
}

fn compile_text(sql: &str, db: &DbSpec) -> Option<(Relation, String)> {
    match compile(sql, db) {
        Compiled::Ok(r) => {
            let text = render_relation(&r).ok()?;
            Some((r, text))
        }
        _ => None,
    }
}

/// multiset of (limit, offset) over all Map nodes
fn limits_sig(r: &Relation) -> Vec<(Option<usize>, Option<usize>)> {
    let mut nodes = vec![];
    crate::props::sqlprops::all_nodes(r, &mut nodes);
    let mut v: Vec<(Option<usize>, Option<usize>)> = nodes
        .iter()
        .filter_map(|n| match n {
            Relation::Map(m) if m.limit().is_some() || m.offset().is_some() => Some((*m.limit(), *m.offset())),
            _ => None,
        })
        .collect();
    // the renderer repeats a LIMIT on the outer SELECT, so compare as a set
    v.sort();
    v.dedup();
    v
}

fn schema_sig(r: &Relation) -> Vec<(String, String)> {
    r.schema().iter().map(|f| (f.name().to_string(), f.data_type().to_string())).collect()
}

pub fn check(case: &Case, st: &mut Stats) -> Vec<Fail> {
    let mut fails = vec![];
    if case.db.tables.iter().any(|t| t.cols.is_empty()) {
        st.reject();
        return fails;
    }
    st.eval();
    let sqls: Vec<(String, Info)> = (0..case.queries.len()).map(|i| sql_of(case, i)).collect();
    let (tsql, tinfo) = &sqls[0];
    let mut classes = tinfo.classes.clone();
    if case.with_random {
        classes.push("random_in_query");
    }
    let feat = if case.with_random { "random_in_query".to_string() } else { feature(&classes) };
    // baseline
    let Some((r1, text1)) = compile_text(tsql, &case.db) else {
        st.class("target_not_compiled");
        return fails;
    };
    st.class("target_compiled");
    // (iii) rendering twice
    if let Ok(t) = render_relation(&r1) {
        if t != text1 {
            fails.push(Fail::new(format!("C16|render_twice|{feat}"), format!("two renderings of the same relation differ\nquery: {tsql}\n1: {text1}\n2: {t}")));
        }
    }
    // (i) history: other compilations, optional DP rewrite and counter reset, then the target again
    let mut history = 0;
    for (s, _) in sqls.iter().skip(1) {
        if let Some((r, _)) = compile_text(s, &case.db) {
            history += 1;
            if case.dp_between {
                let pu = PuSpec { kinds: vec![PuKind::Own(0), PuKind::Row, PuKind::Own(0), PuKind::None], hash: false, synthetic: false };
                if let Some((pu, _)) = pu.privacy_unit(&case.db) {
                    let rels = case.db.relations();
                    let _ = safe(|| r.rewrite_with_differential_privacy(&rels, None, pu, qrlew::differential_privacy::DpParameters::from_epsilon_delta(1.0, 1e-3)).map(|x| x.relation().to_string()));
                    st.class("history_with_dp_rewrite");
                }
            }
        }
    }
    if case.reset_between {
        let _ = safe(|| qrlew::namer::reset());
        st.class("history_with_counter_reset");
    }
    let generated_names = text1.contains("field_") || text1.contains("map_") || text1.contains("join_");
    if history > 0 && generated_names {
        st.nontrivial(hash_json(case));
        st.class("recompiled_after_history");
    }
    match compile_text(tsql, &case.db) {
        Some((r1b, text1b)) => {
            let same_rel = safe(|| r1b == r1).unwrap_or(false);
            if !same_rel || text1b != text1 {
                let what = if text1b != text1 { diff_kind(Some(&text1), Some(&text1b)) } else { "relation_eq" };
                fails.push(Fail::new(
                    format!("C16|recompile_differs|{what}|{feat}"),
                    format!("the same query compiled before and after {history} other compilations differs\nquery: {tsql}\nbefore: {}\nafter:  {}", first_diff(&text1, &text1b).0, first_diff(&text1, &text1b).1),
                ));
            }
        }
        None => fails.push(Fail::new(format!("C16|recompile_failed|{feat}"), format!("second compilation of {tsql} failed"))),
    }
    // (ii) threads
    let n = case.threads.clamp(2, 6) as usize;
    // rendered text and output schema (names and data types): range propagation must not depend on what the thread
    // compiled before
    let sig = |x: (Relation, String)| format!("{}\n-- schema: {}", x.1, serde_json::to_string(&schema_sig(&x.0)).unwrap_or_default());
    let baseline: Vec<Option<String>> = sqls.iter().map(|(s, _)| compile_text(s, &case.db).map(sig)).collect();
    let results: Vec<Vec<Option<String>>> = std::thread::scope(|sc| {
        let hs: Vec<_> = (0..n)
            .map(|k| {
                let sqls = &sqls;
                let db = &case.db;
                let rot = (k + case.rotate as usize) % sqls.len();
                sc.spawn(move || {
                    crate::safe::install_hook_once();
                    let mut out = vec![None; sqls.len()];
                    for j in 0..sqls.len() {
                        let i = (j + rot) % sqls.len();
                        out[i] = compile_text(&sqls[i].0, db).map(|x| format!("{}\n-- schema: {}", x.1, serde_json::to_string(&schema_sig(&x.0)).unwrap_or_default()));
                    }
                    out
                })
            })
            .collect();
        hs.into_iter().map(|h| h.join().unwrap_or_default()).collect()
    });
    st.class("concurrent_compilations");
    'outer: for (k, res) in results.iter().enumerate() {
        for (i, t) in res.iter().enumerate() {
            if i < baseline.len() && *t != baseline[i] {
                let f = if i == 0 { feat.clone() } else { feature(&sqls[i].1.classes) };
                let (a, b) = first_diff(baseline[i].as_deref().unwrap_or("<none>"), t.as_deref().unwrap_or("<none>"));
                // text and schema parts are compared separately
                let split = |x: Option<&str>| x.map(|s| s.split_once("\n-- schema: ").map_or((s.to_string(), String::new()), |(a, b)| (a.to_string(), b.to_string())));
                let (bs, ts) = (split(baseline[i].as_deref()), split(t.as_deref()));
                let what: String = match (&bs, &ts) {
                    (Some((bt, bsch)), Some((tt, tsch))) => {
                        if bsch != tsch {
                            // the first column whose type differs: variant change (int->float) or range change (range:int)
                            let parse = |s: &str| -> Vec<(String, String)> { serde_json::from_str(s).unwrap_or_default() };
                            let kind = |t: &str| -> String {
                                let mut out = String::new();
                                let mut depth = 0;
                                for c in t.chars() {
                                    match c {
                                        '[' | '{' => depth += 1,
                                        ']' | '}' => depth -= 1,
                                        _ if depth == 0 && !c.is_whitespace() => out.push(c),
                                        _ => {}
                                    }
                                }
                                out
                            };
                            let (ca, cb) = (parse(bsch), parse(tsch));
                            let d = ca
                                .iter()
                                .zip(cb.iter())
                                .find(|(a, b)| a != b)
                                .map(|(a, b)| if kind(&a.1) != kind(&b.1) { format!("{}->{}", kind(&a.1), kind(&b.1)) } else { format!("range:{}", kind(&a.1)) })
                                .unwrap_or_else(|| "arity".to_string());
                            // numeric / empty / null flips are the recorded non-determinism of numeric range propagation; text
                            // types are kept apart
                            if d.contains("str") {
                                format!("schema_text_types:{d}")
                            } else {
                                format!("schema_types:{d}")
                            }
                        } else {
                            diff_kind(Some(bt), Some(tt)).to_string()
                        }
                    }
                    _ => "failed".to_string(),
                };
                fails.push(Fail::new(format!("C16|thread_differs|{what}|{f}"), format!("thread {k} compiled query {i} differently from the sequential baseline\nquery: {}\nbaseline: {a}\nthread:   {b}", sqls[i].0)));
                break 'outer;
            }
        }
    }
    // (iv) fixpoint
    if !case.with_random {
        match compile(&text1, &case.db) {
            Compiled::Ok(r2) => {
                st.class("reparsed");
                let (s1, s2) = (schema_sig(&r1), schema_sig(&r2));
                let (l1, l2) = (limits_sig(&r1), limits_sig(&r2));
                // the renderer repeats the LIMIT (without the OFFSET) on the outer SELECT: compare the sets of limit values and of
                // offset values, not the pairs
                let split = |l: &Vec<(Option<usize>, Option<usize>)>| {
                    let mut a: Vec<usize> = l.iter().filter_map(|x| x.0).collect();
                    let mut b: Vec<usize> = l.iter().filter_map(|x| x.1).filter(|o| *o > 0).collect();
                    a.sort();
                    a.dedup();
                    b.sort();
                    b.dedup();
                    (a, b)
                };
                if split(&l1) != split(&l2) {
                    fails.push(Fail::new(format!("C16|fixpoint_limits|{feat}"), format!("re-parsing the rendered SQL changes LIMIT/OFFSET\nquery: {tsql}\nfirst:  {l1:?}\nsecond: {l2:?}\nrendered: {text1}")));
                } else if s1 != s2 {
                    let which = if s1.len() != s2.len() {
                        "arity"
                    } else if s1.iter().zip(s2.iter()).any(|(a, b)| a.0 != b.0) {
                        "names"
                    } else {
                        "types"
                    };
                    fails.push(Fail::new(format!("C16|fixpoint_schema|{which}|{feat}"), format!("re-parsing the rendered SQL changes the output schema\nquery: {tsql}\nfirst:  {s1:?}\nsecond: {s2:?}")));
                } else if let Ok(text2) = render_relation(&r2) {
                    let exec = with_db(|db| {
                        db.set_rng(RngMode::Zero);
                        if db.load(&case.db, None).is_err() {
                            return None;
                        }
                        Some((db.query(&text1), db.query(&text2)))
                    });
                    if let Some((Ok(a), Ok(b))) = exec {
                        st.class("fixpoint_executed");
                        let limit = tinfo.has_limit;
                        let ok = if limit { a.rows.len() == b.rows.len() } else { same_multiset(&a.rows, &b.rows, 1e-9) };
                        if !ok {
                            fails.push(Fail::new(
                                format!("C16|fixpoint_rows|{feat}"),
                                format!("rendering the re-parsed relation changes the result\nquery: {tsql}\nfirst:  {}\nsecond: {}", show_rows(&a.rows, 5), show_rows(&b.rows, 5)),
                            ));
                        }
                    }
                    if text2 == text1 {
                        st.class("textual_fixpoint");
                    }
                }
            }
            Compiled::Err(e) => fails.push(Fail::new(format!("C16|reparse_refused|{feat}"), format!("the rendered SQL is refused by the parser/compiler: {}\nquery: {tsql}\nrendered: {text1}", e.trim()))),
            Compiled::Panic(p) => fails.push(Fail::new(format!("C16|reparse_panic|{}|{feat}", p.file_line()), format!("re-parsing the rendered SQL panics at {}: {}\nquery: {tsql}", p.loc, p.msg))),
        }
    }
    st.sample(|| json!({"target": tsql, "history": sqls.iter().skip(1).map(|s| s.0.clone()).collect::<Vec<_>>(), "threads": n, "dp_between": case.dp_between, "reset_between": case.reset_between}));
    fails
}

/// classify the difference between two renderings of the same query
fn diff_kind(a: Option<&str>, b: Option<&str>) -> &'static str {
    let (Some(a), Some(b)) = (a, b) else { return "failed" };
    fn tokens(s: &str) -> Vec<String> {
        // split on non-identifier characters, keep identifier-like tokens
        s.split(|c: char| !(c.is_ascii_alphanumeric() || c == '_')).filter(|t| !t.is_empty()).map(|t| t.to_string()).collect()
    }
    fn generated(t: &str) -> bool {
        ["map_", "join_", "reduce_", "set_", "field_", "table_", "values_"].iter().any(|p| t.starts_with(p))
    }
    let (ta, tb) = (tokens(a), tokens(b));
    if ta.len() != tb.len() {
        return "structure";
    }
    let mut kind = "identical";
    for (x, y) in ta.iter().zip(tb.iter()) {
        if x != y {
            if generated(x) && generated(y) {
                // content-hash names are prefix + '_' + 4 base-37 characters (which may contain '_'); counter names are
                // prefix + '_' + a decimal number
                let counter = |t: &str| t.split_once('_').map_or(false, |(_, d)| !d.is_empty() && d.len() != 4 && d.chars().all(|c| c.is_ascii_digit()));
                if counter(x) || counter(y) {
                    return "counter_name";
                }
                kind = "hash_name";
            } else {
                return "structure";
            }
        }
    }
    kind
}

fn first_diff(a: &str, b: &str) -> (String, String) {
    let i = a.chars().zip(b.chars()).take_while(|(x, y)| x == y).count();
    let start = i.saturating_sub(40);
    let cut = |s: &str| s.chars().skip(start).take(160).collect::<String>();
    (cut(a), cut(b))
}

pub fn run(ctx: &Ctx, findings: &Findings) -> Report {
    let mut rep = Report::new(
        "C16",
        "exploration",
        "histories: a database schema and 2-4 generated queries; the first is the target. It is compiled, the others are compiled (optionally followed by a DP rewriting and/or namer::reset()), the target is compiled again: relations must be equal and rendered text byte-equal. Then 2-5 threads compile the whole list in rotated orders and must reproduce the sequential baseline. Rendering twice must give the same text. Fixpoint: the rendered SQL is re-parsed; output names, order and types must be unchanged and the re-rendered SQL must return the same rows on SQLite. 15 % of targets carry a RANDOM() item. Non-trivial = other compilations happened in between and the target's rendering contains generated names; distinct by spec hash.",
    );
    rep.assumptions = vec!["thread interleavings are sampled by repetition; the harness does not own the scheduler".into(), "result equality on SQLite as in C08".into()];
    rep.legs.push(search(ctx, "C16", "histories", ctx.cases(8_000, 25), findings, strategy, check));
    rep.require_class("recompiled_after_history", 1_000);
    rep.require_class("concurrent_compilations", 1_000);
    rep.require_class("reparsed", 500);
    rep.require_class("fixpoint_executed", 500);
    rep.require_class("history_with_dp_rewrite", 200);
    rep
}

pub fn replay(leg: &str, spec: &J, st: &mut Stats) -> Result<Vec<Fail>, String> {
    let _ = leg;
    Ok(check(&decode::<Case>(spec)?, st))
}
