//! C10 — WHERE / ON narrowing never drops a row that satisfies the predicate.
use crate::member::{lax, strict, Tri};
use crate::props::c06::dt_class;
use crate::run::*;
use crate::safe::safe;
use crate::spec::*;
use proptest::prelude::*;
use qrlew::builder::Ready;
use qrlew::data_type::function::Function as _;
use qrlew::data_type::value::Value;
use qrlew::data_type::{DataType, DataTyped};
use qrlew::expr::function::Function as F;
use qrlew::expr::{self, Expr};
use qrlew::relation::{Relation, Variant as _};
use serde::{Deserialize, Serialize};
use serde_json::{json, Value as J};
use std::sync::Arc;

pub const COLS: [&str; 3] = ["a", "b", "c"];

#[derive(Clone, Debug, Serialize, Deserialize)]
pub enum LitSpec {
    /// the row's value of that column shifted by a small step (0 = equal)
    RowRel(u8, i8),
    TypeMin(u8),
    TypeMax(u8),
    Const(ValueSpec),
}

#[derive(Clone, Debug, Serialize, Deserialize)]
pub enum Term {
    Col(u8),
    Lit(LitSpec),
    /// an unsupported sub-term: col + col, abs(col), col * lit
    Plus(u8, u8),
    Abs(u8),
    Times(u8, LitSpec),
}

#[derive(Clone, Copy, Debug, Serialize, Deserialize, PartialEq)]
pub enum Op {
    Gt,
    GtEq,
    Lt,
    LtEq,
    Eq,
    NotEq,
}

#[derive(Clone, Debug, Serialize, Deserialize)]
pub enum Pred {
    Cmp(Op, Term, Term),
    InList(u8, Vec<LitSpec>),
    And(Box<Pred>, Box<Pred>),
    Or(Box<Pred>, Box<Pred>),
    Not(Box<Pred>),
}

#[derive(Clone, Debug, Serialize, Deserialize)]
pub struct WhereCase {
    pub cols: Vec<TypeSpec>,
    pub pred: Pred,
    pub picks: Vec<u16>,
}

fn lit_strategy() -> BoxedStrategy<LitSpec> {
    prop_oneof![
        55 => (0u8..3, -2i8..=2).prop_map(|(c, d)| LitSpec::RowRel(c, d)),
        10 => (0u8..3).prop_map(LitSpec::TypeMin),
        10 => (0u8..3).prop_map(LitSpec::TypeMax),
        10 => (-5i64..20).prop_map(|x| LitSpec::Const(ValueSpec::Int(x))),
        10 => (-40i64..40).prop_map(|x| LitSpec::Const(ValueSpec::Float(x as f64 / 4.0))),
        5 => text_atom().prop_map(|s| LitSpec::Const(ValueSpec::Text(s))),
    ]
    .boxed()
}

fn term_strategy() -> BoxedStrategy<Term> {
    prop_oneof![
        50 => (0u8..3).prop_map(Term::Col),
        35 => lit_strategy().prop_map(Term::Lit),
        5 => (0u8..3, 0u8..3).prop_map(|(a, b)| Term::Plus(a, b)),
        5 => (0u8..3).prop_map(Term::Abs),
        5 => (0u8..3, lit_strategy()).prop_map(|(a, l)| Term::Times(a, l)),
    ]
    .boxed()
}

fn op_strategy() -> BoxedStrategy<Op> {
    prop_oneof![
        15 => Just(Op::Gt), 15 => Just(Op::GtEq), 15 => Just(Op::Lt), 15 => Just(Op::LtEq), 28 => Just(Op::Eq), 12 => Just(Op::NotEq)
    ]
    .boxed()
}

fn atom_strategy() -> BoxedStrategy<Pred> {
    prop_oneof![
        // column vs literal in both operand orders
        30 => (op_strategy(), 0u8..3, lit_strategy()).prop_map(|(o, c, l)| Pred::Cmp(o, Term::Col(c), Term::Lit(l))),
        20 => (op_strategy(), 0u8..3, lit_strategy()).prop_map(|(o, c, l)| Pred::Cmp(o, Term::Lit(l), Term::Col(c))),
        15 => (op_strategy(), 0u8..3, 0u8..3).prop_map(|(o, a, b)| Pred::Cmp(o, Term::Col(a), Term::Col(b))),
        15 => (op_strategy(), term_strategy(), term_strategy()).prop_map(|(o, a, b)| Pred::Cmp(o, a, b)),
        20 => (0u8..3, proptest::collection::vec(lit_strategy(), 1..4)).prop_map(|(c, l)| Pred::InList(c, l)),
    ]
    .boxed()
}

fn pred_strategy(depth: u32) -> BoxedStrategy<Pred> {
    if depth == 0 {
        return atom_strategy();
    }
    let sub = pred_strategy(depth - 1);
    prop_oneof![
        30 => atom_strategy(),
        32 => (sub.clone(), sub.clone()).prop_map(|(a, b)| Pred::And(Box::new(a), Box::new(b))),
        32 => (sub.clone(), sub.clone()).prop_map(|(a, b)| Pred::Or(Box::new(a), Box::new(b))),
        6 => sub.prop_map(|a| Pred::Not(Box::new(a))),
    ]
    .boxed()
}

fn col_type() -> BoxedStrategy<TypeSpec> {
    let base = prop_oneof![35 => int_type(), 30 => float_type(), 15 => text_type(), 5 => bool_type(), 5 => date_type()];
    prop_oneof![
        70 => base.clone(),
        30 => base.prop_map(|t| TypeSpec::Optional(Box::new(t))),
    ]
    .boxed()
}

pub fn where_strategy() -> BoxedStrategy<WhereCase> {
    // columns biased to share a variant so that column-vs-column comparisons are meaningful
    (col_type(), col_type(), col_type(), any::<u8>(), pred_strategy(3), picks_strategy(40))
        .prop_map(|(a, b, c, share, pred, picks)| {
            let b = if share % 4 == 0 { a.clone() } else { b };
            let c = if share % 5 == 0 { a.clone() } else { c };
            WhereCase { cols: vec![a, b, c], pred, picks }
        })
        .boxed()
}

// ---------------------------------------------------------------------------------------------

fn unwrap_type(t: &TypeSpec) -> &TypeSpec {
    match t {
        TypeSpec::Optional(i) => unwrap_type(i),
        t => t,
    }
}

fn type_bound(t: &TypeSpec, max: bool) -> Option<ValueSpec> {
    match unwrap_type(t) {
        TypeSpec::Int(v) if !v.is_empty() => Some(ValueSpec::Int(if max { v.iter().map(|x| x[0].max(x[1])).max().unwrap() } else { v.iter().map(|x| x[0].min(x[1])).min().unwrap() })),
        TypeSpec::Float(v) if !v.is_empty() => {
            let it = v.iter().flat_map(|x| [x[0], x[1]]);
            Some(ValueSpec::Float(if max { it.fold(f64::MIN, f64::max) } else { it.fold(f64::MAX, f64::min) }))
        }
        TypeSpec::Text(v) if !v.is_empty() => {
            let mut all: Vec<String> = v.iter().flat_map(|x| [x[0].clone(), x[1].clone()]).collect();
            all.sort();
            Some(ValueSpec::Text(if max { all.last().unwrap().clone() } else { all[0].clone() }))
        }
        TypeSpec::Date(v) if !v.is_empty() => Some(ValueSpec::Date(if max { v.iter().map(|x| x[0].max(x[1])).max().unwrap() } else { v.iter().map(|x| x[0].min(x[1])).min().unwrap() })),
        TypeSpec::Bool(v) if !v.is_empty() => Some(ValueSpec::Bool(if max { *v.iter().max().unwrap() } else { *v.iter().min().unwrap() })),
        _ => None,
    }
}

fn strip_some(v: &ValueSpec) -> Option<&ValueSpec> {
    match v {
        ValueSpec::None => None,
        ValueSpec::Some(x) => strip_some(x),
        x => Some(x),
    }
}

fn resolve_lit(l: &LitSpec, cols: &[TypeSpec], row: &[ValueSpec]) -> ValueSpec {
    match l {
        LitSpec::Const(v) => v.clone(),
        LitSpec::TypeMin(c) => type_bound(&cols[*c as usize % 3], false).unwrap_or(ValueSpec::Int(0)),
        LitSpec::TypeMax(c) => type_bound(&cols[*c as usize % 3], true).unwrap_or(ValueSpec::Int(0)),
        LitSpec::RowRel(c, d) => {
            let c = *c as usize % 3;
            match strip_some(&row[c]) {
                None => type_bound(&cols[c], false).unwrap_or(ValueSpec::Int(0)),
                Some(ValueSpec::Int(x)) => ValueSpec::Int(x.saturating_add(match d {
                    -2 => -1000,
                    2 => 1000,
                    d => *d as i64,
                })),
                Some(ValueSpec::Float(x)) => ValueSpec::Float(match d {
                    -2 => next_down(*x),
                    2 => next_up(*x),
                    d => x + *d as f64 * 0.5,
                }),
                Some(ValueSpec::Date(x)) => ValueSpec::Date(x.saturating_add(*d as i32)),
                Some(ValueSpec::Text(s)) => ValueSpec::Text(match d {
                    0 => s.clone(),
                    d if *d > 0 => format!("{s}a"),
                    _ => {
                        let mut t = s.clone();
                        t.pop();
                        t
                    }
                }),
                Some(other) => other.clone(),
            }
        }
    }
}

fn lit_expr(v: &ValueSpec) -> Expr {
    Expr::val(v.to_value())
}

fn term_expr(t: &Term, cols: &[TypeSpec], row: &[ValueSpec]) -> Expr {
    match t {
        Term::Col(c) => Expr::col(COLS[*c as usize % 3]),
        Term::Lit(l) => lit_expr(&resolve_lit(l, cols, row)),
        Term::Plus(a, b) => Expr::plus(Expr::col(COLS[*a as usize % 3]), Expr::col(COLS[*b as usize % 3])),
        Term::Abs(a) => Expr::abs(Expr::col(COLS[*a as usize % 3])),
        Term::Times(a, l) => Expr::multiply(Expr::col(COLS[*a as usize % 3]), lit_expr(&resolve_lit(l, cols, row))),
    }
}

fn op_fn(o: Op) -> F {
    match o {
        Op::Gt => F::Gt,
        Op::GtEq => F::GtEq,
        Op::Lt => F::Lt,
        Op::LtEq => F::LtEq,
        Op::Eq => F::Eq,
        Op::NotEq => F::NotEq,
    }
}

pub fn pred_expr(p: &Pred, cols: &[TypeSpec], row: &[ValueSpec]) -> Expr {
    match p {
        Pred::Cmp(o, a, b) => Expr::Function(expr::Function::new(op_fn(*o), vec![Arc::new(term_expr(a, cols, row)), Arc::new(term_expr(b, cols, row))])),
        Pred::InList(c, ls) => {
            let vals: Vec<Value> = ls.iter().map(|l| resolve_lit(l, cols, row).to_value()).collect();
            Expr::in_list(Expr::col(COLS[*c as usize % 3]), Expr::val(Value::list(vals)))
        }
        Pred::And(a, b) => Expr::and(pred_expr(a, cols, row), pred_expr(b, cols, row)),
        Pred::Or(a, b) => Expr::or(pred_expr(a, cols, row), pred_expr(b, cols, row)),
        Pred::Not(a) => Expr::not(pred_expr(a, cols, row)),
    }
}

fn vtag_type(t: &TypeSpec) -> &'static str {
    match unwrap_type(t) {
        TypeSpec::Int(_) | TypeSpec::Float(_) => "num",
        t => t.variant_name(),
    }
}
fn vtag_value(v: &ValueSpec) -> &'static str {
    match v {
        ValueSpec::Int(_) | ValueSpec::Float(_) => "num",
        ValueSpec::Text(_) => "text",
        ValueSpec::Bool(_) => "bool",
        ValueSpec::Date(_) => "date",
        ValueSpec::Some(x) => vtag_value(x),
        _ => "other",
    }
}
fn term_tag(t: &Term, cols: &[TypeSpec], row: &[ValueSpec]) -> &'static str {
    match t {
        Term::Col(c) => vtag_type(&cols[*c as usize % 3]),
        Term::Lit(l) => vtag_value(&resolve_lit(l, cols, row)),
        Term::Plus(a, b) => {
            if vtag_type(&cols[*a as usize % 3]) == "num" && vtag_type(&cols[*b as usize % 3]) == "num" {
                "num"
            } else {
                "mixed"
            }
        }
        Term::Abs(a) => {
            if vtag_type(&cols[*a as usize % 3]) == "num" {
                "num"
            } else {
                "mixed"
            }
        }
        Term::Times(a, l) => {
            if vtag_type(&cols[*a as usize % 3]) == "num" && vtag_value(&resolve_lit(l, cols, row)) == "num" {
                "num"
            } else {
                "mixed"
            }
        }
    }
}
/// does any atom compare terms of different variants (int and float count as one numeric variant)?
pub fn cross_variant(p: &Pred, cols: &[TypeSpec], row: &[ValueSpec]) -> bool {
    match p {
        Pred::Cmp(_, a, b) => {
            let (ta, tb) = (term_tag(a, cols, row), term_tag(b, cols, row));
            ta != tb || ta == "mixed"
        }
        Pred::InList(c, ls) => {
            let tc = vtag_type(&cols[*c as usize % 3]);
            ls.iter().any(|l| vtag_value(&resolve_lit(l, cols, row)) != tc)
        }
        Pred::And(a, b) | Pred::Or(a, b) => cross_variant(a, cols, row) || cross_variant(b, cols, row),
        Pred::Not(a) => cross_variant(a, cols, row),
    }
}

#[derive(Clone, Copy, Debug, PartialEq)]
pub enum T3 {
    True,
    False,
    Null,
}

fn term_cols(t: &Term) -> Vec<u8> {
    match t {
        Term::Col(c) | Term::Abs(c) | Term::Times(c, _) => vec![*c],
        Term::Plus(a, b) => vec![*a, *b],
        Term::Lit(_) => vec![],
    }
}

fn is_true_value(v: &Value) -> Option<bool> {
    match crate::member::unwrap_some(v)? {
        Value::Boolean(b) => Some(*b),
        _ => None,
    }
}

/// SQL three-valued evaluation: atoms (on non-NULL operands) by the library's own Expr::value, NULL propagation and
/// connectives by the harness.
pub fn eval3(p: &Pred, cols: &[TypeSpec], row: &[ValueSpec], plain_row: &Value) -> T3 {
    let null_col = |c: &u8| strip_some(&row[*c as usize % 3]).is_none();
    match p {
        Pred::Cmp(..) | Pred::InList(..) => {
            let used: Vec<u8> = match p {
                Pred::Cmp(_, a, b) => [term_cols(a), term_cols(b)].concat(),
                Pred::InList(c, _) => vec![*c],
                _ => vec![],
            };
            if used.iter().any(null_col) {
                return T3::Null;
            }
            let e = pred_expr(p, cols, row);
            match safe(|| e.value(plain_row)) {
                Ok(Ok(v)) => match is_true_value(&v) {
                    Some(true) => T3::True,
                    Some(false) => T3::False,
                    None => T3::Null,
                },
                _ => T3::Null,
            }
        }
        Pred::And(a, b) => match (eval3(a, cols, row, plain_row), eval3(b, cols, row, plain_row)) {
            (T3::False, _) | (_, T3::False) => T3::False,
            (T3::True, T3::True) => T3::True,
            _ => T3::Null,
        },
        Pred::Or(a, b) => match (eval3(a, cols, row, plain_row), eval3(b, cols, row, plain_row)) {
            (T3::True, _) | (_, T3::True) => T3::True,
            (T3::False, T3::False) => T3::False,
            _ => T3::Null,
        },
        Pred::Not(a) => match eval3(a, cols, row, plain_row) {
            T3::True => T3::False,
            T3::False => T3::True,
            T3::Null => T3::Null,
        },
    }
}

fn skeleton(p: &Pred, depth: u32) -> String {
    let term = |t: &Term| match t {
        Term::Col(_) => "col",
        Term::Lit(_) => "lit",
        _ => "expr",
    };
    match p {
        Pred::Cmp(o, a, b) => format!("{:?}({},{})", o, term(a), term(b)).to_lowercase(),
        Pred::InList(..) => "in".into(),
        Pred::And(a, b) => {
            if depth == 0 {
                "and(..)".into()
            } else {
                format!("and({},{})", skeleton(a, depth - 1), skeleton(b, depth - 1))
            }
        }
        Pred::Or(a, b) => {
            if depth == 0 {
                "or(..)".into()
            } else {
                format!("or({},{})", skeleton(a, depth - 1), skeleton(b, depth - 1))
            }
        }
        Pred::Not(a) => {
            if depth == 0 {
                "not(..)".into()
            } else {
                format!("not({})", skeleton(a, depth - 1))
            }
        }
    }
}

fn atom_kinds(p: &Pred, out: &mut Vec<String>) {
    match p {
        Pred::Cmp(o, a, b) => {
            let k = match (a, b) {
                (Term::Col(_), Term::Lit(_)) => "col_lit",
                (Term::Lit(_), Term::Col(_)) => "lit_col",
                (Term::Col(_), Term::Col(_)) => "col_col",
                (Term::Lit(_), Term::Lit(_)) => "lit_lit",
                _ => "with_expr",
            };
            let o = match o {
                Op::Eq => "eq",
                Op::NotEq => "neq",
                _ => "cmp",
            };
            out.push(format!("{o}:{k}"));
        }
        Pred::InList(..) => out.push("in_list".into()),
        Pred::And(a, b) => {
            out.push("and".into());
            atom_kinds(a, out);
            atom_kinds(b, out);
        }
        Pred::Or(a, b) => {
            out.push("or".into());
            atom_kinds(a, out);
            atom_kinds(b, out);
        }
        Pred::Not(a) => {
            out.push("not".into());
            atom_kinds(a, out);
        }
    }
}

/// smallest sub-predicate (on the path of true sub-predicates) whose own narrowing already drops the row
fn localise(p: &Pred, cols: &[TypeSpec], row: &[ValueSpec], plain_row: &Value, t: &DataType, row_vals: &[Value]) -> Option<String> {
    let children: Vec<&Pred> = match p {
        Pred::And(a, b) | Pred::Or(a, b) => vec![a, b],
        Pred::Not(a) => vec![a],
        _ => vec![],
    };
    for c in children {
        if let Some(k) = localise(c, cols, row, plain_row, t, row_vals) {
            return Some(k);
        }
    }
    if eval3(p, cols, row, plain_row) != T3::True {
        return None;
    }
    let e = pred_expr(p, cols, row);
    let narrowed = safe(|| t.filter(&e)).ok()?;
    if let DataType::Struct(s) = &narrowed {
        for (i, (_, ft)) in s.fields().iter().enumerate() {
            if lax(ft, &row_vals[i]) == Tri::No {
                return Some(skeleton(p, 1));
            }
        }
    }
    None
}

pub fn check_where(case: &WhereCase, st: &mut Stats) -> Vec<Fail> {
    let mut fails = vec![];
    let mut p = Picks::new(&case.picks);
    let fields: Vec<(String, TypeSpec)> = COLS.iter().map(|c| c.to_string()).zip(case.cols.iter().cloned()).collect();
    let tspec = TypeSpec::Struct(fields);
    let Ok(t) = safe(|| tspec.to_data_type()) else {
        st.reject();
        return fails;
    };
    let mut row: Vec<ValueSpec> = vec![];
    for c in &case.cols {
        match c.value_in(&mut p) {
            Some(v) => row.push(v),
            None => {
                st.class("empty_column_type");
                return fails;
            }
        }
    }
    // the same row, with some(x) written x (a non-NULL cell is just a value) and NULL kept
    let row_vals: Vec<Value> = row.iter().map(|v| v.to_value()).collect();
    let plain: Vec<(String, Value)> = COLS
        .iter()
        .zip(row.iter())
        .map(|(n, v)| (n.to_string(), strip_some(v).map(|x| x.to_value()).unwrap_or_else(crate::member::value_none)))
        .collect();
    let plain_row = Value::structured(plain);
    for (i, ft) in case.cols.iter().enumerate() {
        if strict(&safe(|| ft.to_data_type()).unwrap_or(DataType::Any), &row_vals[i]) != Tri::Yes {
            st.reject();
            return fails;
        }
    }
    st.eval();
    let truth = eval3(&case.pred, &case.cols, &row, &plain_row);
    if truth != T3::True {
        st.class(if truth == T3::False { "pred_false" } else { "pred_null" });
        return fails;
    }
    st.class("pred_true");
    let e = pred_expr(&case.pred, &case.cols, &row);
    let narrowed = match safe(|| t.filter(&e)) {
        Ok(n) => n,
        Err(pn) => {
            fails.push(Fail::new(
                format!("C10|filter_panic|{}", pn.file_line()),
                format!("{t}.filter({e}) panicked at {}: {}", pn.loc, pn.msg),
            ));
            return fails;
        }
    };
    let changed = safe(|| narrowed != t).unwrap_or(true);
    let DataType::Struct(ns) = &narrowed else {
        fails.push(Fail::new("C10|not_a_struct", format!("{t}.filter({e}) = {narrowed}")));
        return fails;
    };
    for (i, (name, ft)) in ns.fields().iter().enumerate() {
        if i >= row_vals.len() {
            break;
        }
        if lax(ft, &row_vals[i]) == Tri::No {
            let loc = localise(&case.pred, &case.cols, &row, &plain_row, &t, &row_vals).unwrap_or_else(|| format!("whole:{}", skeleton(&case.pred, 1)));
            let orig = safe(|| case.cols[i].to_data_type()).map(|d| dt_class(&d)).unwrap_or_default();
            let nullness = if crate::member::is_null_value(&row_vals[i]) { "null" } else { "value" };
            let xv = if cross_variant(&case.pred, &case.cols, &row) { "xvar" } else { "samevar" };
            let cause = crate::member::witness_cause(&plain_row);
            fails.push(Fail::new(
                format!("C10|dropped|{xv}|{loc}|{orig}|{nullness}|{cause}"),
                format!("row {} satisfies {e} but column {name} = {} is not in the narrowed type {ft} (input type {t})", plain_row, row_vals[i]),
            ));
            break;
        }
    }
    if changed {
        st.nontrivial(hash_json(case));
        st.class("narrowed");
        if !cross_variant(&case.pred, &case.cols, &row) {
            st.class("narrowed_same_variant");
        }
        let mut kinds = vec![];
        atom_kinds(&case.pred, &mut kinds);
        kinds.sort();
        kinds.dedup();
        for k in kinds {
            st.class(&format!("nt_atom:{k}"));
        }
        if row.iter().any(|v| strip_some(v).is_none()) {
            st.class("nt_row_with_null");
        }
    }
    st.sample(|| json!({"type": t.to_string().chars().take(300).collect::<String>(), "row": plain_row.to_string(), "predicate": e.to_string(), "narrowed": narrowed.to_string().chars().take(300).collect::<String>()}));
    fails
}

// ---------------------------------------------------------------------------------------------
// Join ON narrowing, observed through Join::schema

#[derive(Clone, Debug, Serialize, Deserialize)]
pub struct JoinCase {
    pub left: Vec<TypeSpec>,
    pub right: Vec<TypeSpec>,
    /// 0 inner, 1 left outer, 2 right outer, 3 full outer
    pub kind: u8,
    /// predicate over 4 columns: 0,1 = left a,b ; 2,3 = right a,b  (encoded with the 3-column machinery: col index mod 4)
    pub atoms: Vec<(Op, u8, u8, i8)>,
    pub picks: Vec<u16>,
}

pub fn join_strategy() -> BoxedStrategy<JoinCase> {
    let ct = || prop_oneof![4 => int_type(), 3 => float_type(), 1 => text_type(), 2 => int_type().prop_map(|t| TypeSpec::Optional(Box::new(t)))];
    (
        proptest::collection::vec(ct(), 2..=2),
        proptest::collection::vec(ct(), 2..=2),
        0u8..4,
        proptest::collection::vec((op_strategy(), 0u8..2, 0u8..3, -1i8..=1), 1..3),
        picks_strategy(24),
    )
        .prop_map(|(left, right, kind, atoms, picks)| JoinCase { left, right, kind, atoms, picks })
        .boxed()
}

fn build_table(name: &str, cols: &[TypeSpec]) -> Option<Relation> {
    let schema: qrlew::relation::Schema = cols
        .iter()
        .enumerate()
        .map(|(i, t)| (["a", "b"][i], t.to_data_type()))
        .collect();
    safe(|| Relation::table().name(name).schema(schema).size(10).build()).ok()
}

pub fn check_join(case: &JoinCase, st: &mut Stats) -> Vec<Fail> {
    let mut fails = vec![];
    let mut p = Picks::new(&case.picks);
    let (Some(lt), Some(rt)) = (build_table("l", &case.left), build_table("r", &case.right)) else {
        st.reject();
        return fails;
    };
    let mut lrow = vec![];
    let mut rrow = vec![];
    for c in &case.left {
        match c.value_in(&mut p) {
            Some(v) => lrow.push(v),
            None => return fails,
        }
    }
    for c in &case.right {
        match c.value_in(&mut p) {
            Some(v) => rrow.push(v),
            None => return fails,
        }
    }
    // ON: conjunction of atoms  left.col OP right.col  or  left.col OP literal(relative to the row)
    let lname = |i: u8| Expr::qcol("_LEFT_", ["a", "b"][i as usize % 2]);
    let rname = |i: u8| Expr::qcol("_RIGHT_", ["a", "b"][i as usize % 2]);
    let mut conj: Option<Expr> = None;
    let mut truth = T3::True;
    for (op, lc, rsel, d) in &case.atoms {
        let lv = strip_some(&lrow[*lc as usize % 2]);
        let (rexpr, rv): (Expr, Option<ValueSpec>) = if *rsel < 2 {
            (rname(*rsel), strip_some(&rrow[*rsel as usize % 2]).cloned())
        } else {
            let lit = resolve_lit(&LitSpec::RowRel(*lc % 2, *d), &[case.left[0].clone(), case.left[1].clone(), case.left[0].clone()], &[lrow[0].clone(), lrow[1].clone(), lrow[0].clone()]);
            (lit_expr(&lit), Some(lit))
        };
        let atom = Expr::Function(expr::Function::new(op_fn(*op), vec![Arc::new(lname(*lc)), Arc::new(rexpr)]));
        let t = match (lv, &rv) {
            (Some(l), Some(r)) => {
                let cmp = Expr::Function(expr::Function::new(op_fn(*op), vec![Arc::new(lit_expr(l)), Arc::new(lit_expr(r))]));
                match safe(|| cmp.value(&Value::unit())) {
                    Ok(Ok(v)) => match is_true_value(&v) {
                        Some(true) => T3::True,
                        Some(false) => T3::False,
                        None => T3::Null,
                    },
                    _ => T3::Null,
                }
            }
            _ => T3::Null,
        };
        truth = match (truth, t) {
            (T3::False, _) | (_, T3::False) => T3::False,
            (T3::True, T3::True) => T3::True,
            _ => T3::Null,
        };
        conj = Some(match conj {
            None => atom,
            Some(c) => Expr::and(c, atom),
        });
    }
    let on = conj.unwrap();
    st.eval();
    let jb = Relation::join().left(lt.clone()).right(rt.clone());
    let built = safe(|| match case.kind % 4 {
        0 => jb.inner(on.clone()).try_build(),
        1 => jb.left_outer(on.clone()).try_build(),
        2 => jb.right_outer(on.clone()).try_build(),
        _ => jb.full_outer(on.clone()).try_build(),
    });
    let join: Relation = match built {
        Ok(Ok(j)) => j,
        Ok(Err(_)) => {
            st.class("join_build_err");
            return fails;
        }
        Err(pn) => {
            st.class("join_build_panic");
            let _ = pn;
            return fails;
        }
    };
    let kind = ["inner", "left", "right", "full"][case.kind as usize % 4];
    st.class(&format!("join:{kind}"));
    let schema = join.schema();
    let ftypes: Vec<DataType> = schema.iter().map(|f| f.data_type()).collect();
    if ftypes.len() != 4 {
        return fails;
    }
    let lvals: Vec<Value> = lrow.iter().map(|v| v.to_value()).collect();
    let rvals: Vec<Value> = rrow.iter().map(|v| v.to_value()).collect();
    let none = crate::member::value_none();
    // rows the join can output for this pair
    let mut outputs: Vec<(&str, Vec<Value>)> = vec![];
    if truth == T3::True {
        outputs.push(("matched", [lvals.clone(), rvals.clone()].concat()));
    } else {
        if kind == "left" || kind == "full" {
            outputs.push(("left_unmatched", [lvals.clone(), vec![none.clone(), none.clone()]].concat()));
        }
        if kind == "right" || kind == "full" {
            outputs.push(("right_unmatched", [vec![none.clone(), none.clone()], rvals.clone()].concat()));
        }
    }
    // a preserved-side row may also be unmatched with *another* partner even when this pair matches
    if truth == T3::True {
        if kind == "left" || kind == "full" {
            outputs.push(("left_unmatched", [lvals.clone(), vec![none.clone(), none.clone()]].concat()));
        }
        if kind == "right" || kind == "full" {
            outputs.push(("right_unmatched", [vec![none.clone(), none.clone()], rvals.clone()].concat()));
        }
    }
    let mut nt = false;
    for (what, vals) in outputs {
        st.class(&format!("join_row:{what}"));
        for (i, v) in vals.iter().enumerate() {
            if lax(&ftypes[i], v) == Tri::No {
                let side = if i < 2 { "left_col" } else { "right_col" };
                fails.push(Fail::new(
                    format!(
                        "C10|join_dropped|{kind}|{what}|{side}|{}|{}",
                        if crate::member::is_null_value(v) { "null" } else { "value" },
                        crate::member::witness_cause(&Value::list(vals.iter().filter(|x| crate::member::value_tag(x) != "optional" || !crate::member::is_null_value(x)).cloned().collect::<Vec<_>>()))
                    ),
                    format!("{kind} join ON {on}: output row {what} ({}) has column {i} = {v} outside its declared type {}", vals.iter().map(|x| x.to_string()).collect::<Vec<_>>().join(", "), ftypes[i]),
                ));
                break;
            }
        }
        if what == "matched" {
            nt = true;
        }
    }
    if nt {
        st.nontrivial(hash_json(case));
    }
    st.sample(|| json!({"join": kind, "on": on.to_string(), "left_row": lvals.iter().map(|v| v.to_string()).collect::<Vec<_>>(), "right_row": rvals.iter().map(|v| v.to_string()).collect::<Vec<_>>(), "truth": format!("{truth:?}")}));
    let _ = Value::unit().data_type();
    fails
}

pub fn run(ctx: &Ctx, findings: &Findings) -> Report {
    let mut rep = Report::new(
        "C10",
        "exploration",
        "where: a 3-column row type (int/float/text/bool/date intervals and value sets, 30 % nullable, columns often sharing a variant), a row drawn from it, and a predicate built around that row (comparisons in both operand orders against literals placed just below / equal / just above the row's value or at the type's bounds, column-vs-column, unsupported sub-terms, =, <>, IN lists, AND/OR to depth 3, NOT 6 %). Premise: the predicate is TRUE under SQL three-valued logic (atoms evaluated by Expr::value on non-NULL operands, NULL propagation and connectives by the harness). Obligation: every cell of the row lies in the corresponding field of T.filter(pred). Non-trivial = predicate true and T.filter(pred) != T; distinct by spec hash. join: two 2-column tables, ON conjunction, all four join kinds; the matched pair and the unmatched preserved-side rows must lie in Join::schema.",
    );
    rep.assumptions = vec![
        "comparison atoms on non-NULL operands are evaluated by the library's own Expr::value (trusted as the concrete semantics)".into(),
        "one-directional: a looser narrowing is never reported".into(),
    ];
    rep.legs.push(search(ctx, "C10", "where", ctx.cases(600_000, 30), findings, where_strategy, check_where));
    rep.legs.push(search(ctx, "C10", "join", ctx.cases(150_000, 30), findings, join_strategy, check_join));
    let tot = rep.total();
    let evald = tot.class_count("pred_true").max(1);
    if (tot.class_count("narrowed") as f64) < 0.3 * evald as f64 {
        rep.inconclusive.push(format!("only {} of {} true predicates narrowed the type (< 30 %)", tot.class_count("narrowed"), evald));
    }
    for k in ["cmp:col_lit", "cmp:lit_col", "cmp:col_col", "eq:col_lit", "eq:col_col", "neq:col_lit", "in_list", "and", "or", "not", "cmp:with_expr"] {
        rep.require_class(&format!("nt_atom:{k}"), 200);
    }
    rep.require_class("nt_row_with_null", 500);
    for k in ["inner", "left", "right", "full"] {
        rep.require_class(&format!("join:{k}"), 500);
    }
    rep.require_class("join_row:matched", 2_000);
    rep
}

pub fn replay(leg: &str, spec: &J, st: &mut Stats) -> Result<Vec<Fail>, String> {
    match leg {
        "where" => Ok(check_where(&decode::<WhereCase>(spec)?, st)),
        "join" => Ok(check_join(&decode::<JoinCase>(spec)?, st)),
        _ => Err(format!("unknown leg {leg}")),
    }
}
