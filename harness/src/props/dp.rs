//! Shared generator for the differential-privacy properties (C01, C03, C04, C05, C09): a small relational schema with a
//! privacy-unit structure (users <- orders <- items, plus a public table), data drawn inside the declared types, and
//! aggregation queries the DP compiler accepts.
use crate::sqlx::db::*;
use crate::sqlx::privacy::*;
use proptest::prelude::*;
use qrlew::privacy_unit_tracking::PrivacyUnit;
use serde::{Deserialize, Serialize};

#[derive(Clone, Debug, Serialize, Deserialize)]
pub struct DpSchema {
    pub n_users: u8,
    pub n_orders: u8,
    pub n_items: u8,
    /// numeric measure of orders
    pub x: ColTy,
    pub x_nullable: bool,
    /// numeric attribute of users
    pub a: ColTy,
    /// numeric measure of items
    pub y: ColTy,
    /// public grouping values (text) shared by users.g / public.g
    pub g: Vec<String>,
    /// small public integer key on orders
    pub kind: Vec<i64>,
    /// private (non enumerable) key range on orders
    pub pk_hi: i64,
    /// 0: users own id, orders/items by foreign key; 1: orders carry the unit column themselves (uid), users public;
    /// 2: row privacy on orders; 3: as 0 but items unprotected
    pub pu_variant: u8,
    pub hash: bool,
    /// foreign keys may point to a missing row (one extra value)
    #[serde(default)]
    pub dangling: bool,
    /// users.id is not declared UNIQUE (the data are unique all the same)
    #[serde(default)]
    pub id_not_declared_unique: bool,
    /// a fourth level: items get a unique iid and a table lines(iid -> items.iid, z) hangs below them, so that the
    /// privacy unit of lines is reached through a foreign-key path of three steps
    #[serde(default)]
    pub chain: bool,
    pub row_picks: Vec<u16>,
}

impl DpSchema {
    pub fn db(&self) -> DbSpec {
        let nu = self.n_users.max(1) as i64;
        let no = self.n_orders as i64;
        let users = TableSpec {
            name: "users".into(),
            cols: vec![
                ColSpec { name: "id".into(), ty: ColTy::Int(1, nu), nullable: false, unique: true },
                // (declared uniqueness is dropped in relations() below when id_not_declared_unique)
                ColSpec { name: "a".into(), ty: self.a.clone(), nullable: false, unique: false },
                ColSpec { name: "g".into(), ty: ColTy::TextSet(self.g.clone()), nullable: false, unique: false },
            ],
            nrows: self.n_users.max(1),
            undeclared_unique: if self.id_not_declared_unique { vec!["id".to_string()] } else { vec![] },
            foreign_keys: vec![],
        };
        let orders = TableSpec {
            name: "orders".into(),
            cols: vec![
                ColSpec { name: "oid".into(), ty: ColTy::Int(1, no.max(1)), nullable: false, unique: true },
                // one dangling value: nu + 1
                ColSpec { name: "uid".into(), ty: ColTy::Int(1, nu + if self.dangling { 1 } else { 0 }), nullable: false, unique: false },
                ColSpec { name: "x".into(), ty: self.x.clone(), nullable: self.x_nullable, unique: false },
                ColSpec { name: "kind".into(), ty: ColTy::IntSet(self.kind.clone()), nullable: false, unique: false },
                ColSpec { name: "pk".into(), ty: ColTy::Int(0, self.pk_hi.max(200)), nullable: false, unique: false },
            ],
            nrows: self.n_orders,
            undeclared_unique: vec![],
            foreign_keys: vec![],
        };
        let items = TableSpec {
            name: "items".into(),
            cols: vec![
                ColSpec { name: "oid".into(), ty: ColTy::Int(1, no.max(1) + if self.dangling { 1 } else { 0 }), nullable: false, unique: false },
                ColSpec { name: "y".into(), ty: self.y.clone(), nullable: false, unique: false },
            ]
            .into_iter()
            .chain(if self.chain { vec![ColSpec { name: "iid".into(), ty: ColTy::Int(1, (self.n_items as i64).max(1)), nullable: false, unique: true }] } else { vec![] })
            .collect(),
            // without orders every item would be an orphan
            nrows: if self.n_orders == 0 && !self.dangling { 0 } else { self.n_items },
            undeclared_unique: vec![],
            foreign_keys: vec![],
        };
        let public = TableSpec {
            name: "pub".into(),
            cols: vec![
                ColSpec { name: "g".into(), ty: ColTy::TextSet(self.g.clone()), nullable: false, unique: true },
                ColSpec { name: "v".into(), ty: ColTy::Int(0, 10), nullable: false, unique: false },
            ],
            nrows: self.g.len().min(4) as u8,
            undeclared_unique: vec![],
            foreign_keys: vec![],
        };
        let mut tables = vec![users, orders, items, public];
        if self.chain {
            tables.push(TableSpec {
                name: "lines".into(),
                cols: vec![
                    ColSpec { name: "iid".into(), ty: ColTy::Int(1, (self.n_items as i64).max(1)), nullable: false, unique: false },
                    ColSpec { name: "z".into(), ty: ColTy::Int(0, 9), nullable: false, unique: false },
                ],
                nrows: if self.n_items == 0 || self.n_orders == 0 { 0 } else { self.n_items.min(8) },
                undeclared_unique: vec![],
                foreign_keys: vec![],
            });
        }
        DbSpec { tables, row_picks: self.row_picks.clone() }
    }

    pub fn privacy_unit(&self) -> PrivacyUnit {
        let row = PrivacyUnit::privacy_unit_row();
        let mut v: Vec<(&str, Vec<(&str, &str, &str)>, &str)> = match self.pu_variant % 4 {
            0 => vec![
                ("users", vec![], "id"),
                ("orders", vec![("uid", "users", "id")], "id"),
                ("items", vec![("oid", "orders", "oid"), ("uid", "users", "id")], "id"),
            ],
            1 => vec![("orders", vec![], "uid"), ("items", vec![("oid", "orders", "oid")], "uid")],
            2 => vec![("orders", vec![], row), ("users", vec![], "id")],
            _ => vec![("users", vec![], "id"), ("orders", vec![("uid", "users", "id")], "id")],
        };
        if self.chain {
            match self.pu_variant % 4 {
                0 => v.push(("lines", vec![("iid", "items", "iid"), ("oid", "orders", "oid"), ("uid", "users", "id")], "id")),
                1 => v.push(("lines", vec![("iid", "items", "iid"), ("oid", "orders", "oid")], "uid")),
                _ => {}
            }
        }
        PrivacyUnit::from((v, self.hash))
    }

    /// which tables are protected under this variant
    pub fn protected(&self) -> Vec<&'static str> {
        let mut v = match self.pu_variant % 4 {
            0 => vec!["users", "orders", "items"],
            1 => vec!["orders", "items"],
            2 => vec!["orders", "users"],
            _ => vec!["users", "orders"],
        };
        if self.chain && self.pu_variant % 4 < 2 {
            v.push("lines");
        }
        v
    }

    /// owner (privacy unit value as text) of every row of every table, None = not protected / no owner (dangling)
    pub fn owners(&self, rows: &Vec<Vec<Vec<Cell>>>) -> Vec<Vec<Option<String>>> {
        let cell = |c: &Cell| match c {
            Cell::Int(i) => Some(i.to_string()),
            Cell::Text(s) => Some(s.clone()),
            Cell::Real(f) => Some(f.to_string()),
            _ => None,
        };
        let users: Vec<String> = rows[0].iter().filter_map(|r| cell(&r[0])).collect();
        let order_owner = |r: &Vec<Cell>| -> Option<String> {
            match self.pu_variant % 4 {
                0 | 3 => cell(&r[1]).filter(|u| users.contains(u)),
                1 => cell(&r[1]),
                _ => None,
            }
        };
        let mut out = vec![];
        out.push(rows[0].iter().map(|r| if self.pu_variant % 4 == 1 { None } else { cell(&r[0]) }).collect());
        out.push(
            rows[1]
                .iter()
                .enumerate()
                .map(|(i, r)| if self.pu_variant % 4 == 2 { Some(format!("row{i}")) } else { order_owner(r) })
                .collect(),
        );
        out.push(
            rows[2]
                .iter()
                .map(|r| {
                    if self.pu_variant % 4 >= 2 {
                        return None;
                    }
                    let oid = cell(&r[0])?;
                    let o = rows[1].iter().find(|o| cell(&o[0]).as_ref() == Some(&oid))?;
                    order_owner(o)
                })
                .collect(),
        );
        out.push(rows[3].iter().map(|_| None).collect());
        if self.chain && rows.len() > 4 {
            // lines -> items (iid, last column of items) -> orders -> owner
            out.push(
                rows[4]
                    .iter()
                    .map(|r| {
                        if self.pu_variant % 4 >= 2 {
                            return None;
                        }
                        let iid = cell(&r[0])?;
                        let it = rows[2].iter().find(|i| i.last().and_then(|c| cell(c)).as_ref() == Some(&iid))?;
                        let oid = cell(&it[0])?;
                        let o = rows[1].iter().find(|o| cell(&o[0]).as_ref() == Some(&oid))?;
                        order_owner(o)
                    })
                    .collect(),
            );
        }
        out
    }
}

fn measure_ty() -> BoxedStrategy<ColTy> {
    prop_oneof![
        25 => (0i64..20, 1i64..30).prop_map(|(a, w)| ColTy::Float(a as f64, (a + w) as f64)),
        20 => (-30i64..0, 1i64..60).prop_map(|(a, w)| ColTy::Float(a as f64 / 2.0, (a + w) as f64 / 2.0)),
        20 => (0i64..10, 1i64..20).prop_map(|(a, w)| ColTy::Int(a, a + w)),
        15 => (-20i64..0, 1i64..40).prop_map(|(a, w)| ColTy::Int(a, a + w)),
        8 => prop::sample::select(vec![(5i64, 5i64), (0, 0), (-3, -3)]).prop_map(|(a, b)| ColTy::Int(a, b)),
        6 => proptest::collection::vec(-5i64..10, 1..4).prop_map(|mut v| { v.sort(); v.dedup(); ColTy::IntSet(v) }),
        6 => prop::sample::select(vec![(-100.0f64, 20.0f64), (-1.0, 1000.0), (2.5, 2.5)]).prop_map(|(a, b)| ColTy::Float(a, b)),
    ]
    .boxed()
}

pub fn schema_strategy(max_users: u8, max_orders: u8) -> BoxedStrategy<DpSchema> {
    (
        (1u8..=max_users, 0u8..=max_orders, 0u8..10),
        (measure_ty(), prop::bool::weighted(0.3), measure_ty(), measure_ty()),
        proptest::collection::vec(prop::sample::select(vec!["a", "b", "c", "d"]), 1..4),
        proptest::collection::vec(0i64..4, 1..4),
        200i64..2000,
        0u8..4,
        prop::bool::weighted(0.2),
        prop::bool::weighted(0.4),
        proptest::collection::vec(any::<u16>(), 400..=400),
    )
        .prop_map(|((n_users, n_orders, n_items), (x, x_nullable, a, y), g, kind, pk_hi, pu_variant, hash, dangling, row_picks)| {
            let mut g: Vec<String> = g.into_iter().map(|s| s.to_string()).collect();
            g.sort();
            g.dedup();
            let mut kind = kind;
            kind.sort();
            kind.dedup();
            let id_not_declared_unique = row_picks.first().map_or(false, |p| p % 3 == 0);
            let chain = row_picks.get(1).map_or(false, |p| p % 10 < 3);
            DpSchema { n_users, n_orders, n_items, x, x_nullable, a, y, g, kind, pk_hi, pu_variant, hash, dangling, id_not_declared_unique, chain, row_picks }
        })
        .boxed()
}

// ---------------------------------------------------------------------------------------------
// aggregation queries

#[derive(Clone, Copy, Debug, Serialize, Deserialize, PartialEq)]
pub enum Ak {
    Count,
    CountStar,
    Sum,
    Avg,
    Var,
    Std,
}

#[derive(Clone, Debug, Serialize, Deserialize)]
pub struct DpAgg {
    pub k: Ak,
    pub distinct: bool,
    /// 0: the measure column, 1: measure * 2, 2: measure + 1, 3: second numeric column
    pub arg: u8,
}

#[derive(Clone, Copy, Debug, Serialize, Deserialize, PartialEq)]
pub enum From_ {
    Users,
    Orders,
    Items,
    OrdersJoinUsers,
    ItemsJoinOrders,
    OrdersJoinPublicViaUsers,
    /// users LEFT JOIN orders: the unit table (unique id) on the preserved side, one-to-many
    UsersLeftJoinOrders,
    /// two protected tables joined on a condition unrelated to the unit (pairs rows of different units unless the
    /// tracking restricts the join to equal units)
    OrdersFullJoinUsersOnKind,
}

#[derive(Clone, Copy, Debug, Serialize, Deserialize, PartialEq)]
pub enum Group {
    None,
    /// public values: users.g (text set) or orders.kind (int set)
    Public,
    /// private key (wide integer range): tau-thresholding
    Private,
    /// one public and one private key
    Both,
}

#[derive(Clone, Debug, Serialize, Deserialize)]
pub struct DpQuery {
    pub from: From_,
    pub aggs: Vec<DpAgg>,
    pub group: Group,
    /// optional filter on the measure: (op index, literal selector)
    pub filter: Option<(u8, u8)>,
}

pub struct Rendered {
    pub sql: String,
    /// output column names: keys then aggregates
    pub keys: Vec<String>,
    pub aggs: Vec<(String, Ak)>,
}

impl DpQuery {
    pub fn render(&self, s: &DpSchema) -> Rendered {
        let (from, measure, second, pub_key, priv_key): (&str, &str, &str, Option<&str>, Option<&str>) = match self.from {
            From_::Users => ("users", "a", "a", Some("g"), None),
            From_::Orders => ("orders", "x", "pk", Some("kind"), Some("pk")),
            From_::Items => ("items", "y", "y", None, None),
            From_::OrdersJoinUsers => ("orders JOIN users ON orders.uid = users.id", "x", "a", Some("g"), Some("pk")),
            From_::ItemsJoinOrders => ("items JOIN orders ON items.oid = orders.oid", "y", "x", Some("kind"), Some("pk")),
            From_::OrdersJoinPublicViaUsers => ("orders JOIN users ON orders.uid = users.id JOIN pub ON users.g = pub.g", "x", "v", Some("kind"), Some("pk")),
            From_::UsersLeftJoinOrders => ("users LEFT JOIN orders ON users.id = orders.uid", "x", "a", Some("g"), Some("pk")),
            From_::OrdersFullJoinUsersOnKind => ("orders FULL JOIN users ON orders.kind = users.id", "x", "a", Some("g"), Some("pk")),
        };
        let _ = s;
        let mut keys: Vec<String> = vec![];
        match self.group {
            Group::None => {}
            Group::Public => keys.extend(pub_key.map(|k| k.to_string())),
            Group::Private => keys.extend(priv_key.or(pub_key).map(|k| k.to_string())),
            Group::Both => {
                keys.extend(pub_key.map(|k| k.to_string()));
                if let Some(k) = priv_key {
                    keys.push(k.to_string());
                }
            }
        }
        let mut items: Vec<String> = keys.clone();
        let mut aggs = vec![];
        for (i, a) in self.aggs.iter().take(4).enumerate() {
            let arg = match a.arg % 4 {
                0 => measure.to_string(),
                1 => format!("({measure} * 2)"),
                2 => format!("({measure} + 1)"),
                _ => second.to_string(),
            };
            let d = if a.distinct { "DISTINCT " } else { "" };
            let name = format!("r{i}");
            let e = match a.k {
                Ak::CountStar => "COUNT(*)".to_string(),
                Ak::Count => format!("COUNT({d}{arg})"),
                Ak::Sum => format!("SUM({d}{arg})"),
                Ak::Avg => format!("AVG({d}{arg})"),
                Ak::Var => format!("VARIANCE({d}{arg})"),
                Ak::Std => format!("STDDEV({d}{arg})"),
            };
            items.push(format!("{e} AS {name}"));
            aggs.push((name, a.k));
        }
        let mut sql = format!("SELECT {} FROM {from}", items.join(", "));
        if let Some((o, l)) = self.filter {
            let op = ["<", "<=", ">", ">=", "<>"][o as usize % 5];
            sql.push_str(&format!(" WHERE {measure} {op} {}", (l % 7) as i64 - 1));
        }
        if !keys.is_empty() {
            sql.push_str(&format!(" GROUP BY {}", keys.join(", ")));
        }
        Rendered { sql, keys, aggs }
    }
}

pub fn agg_strategy(allow_distinct: bool, allow_var: bool) -> BoxedStrategy<DpAgg> {
    let k = if allow_var {
        prop_oneof![20 => Just(Ak::Count), 15 => Just(Ak::CountStar), 30 => Just(Ak::Sum), 20 => Just(Ak::Avg), 8 => Just(Ak::Var), 7 => Just(Ak::Std)].boxed()
    } else {
        prop_oneof![25 => Just(Ak::Count), 15 => Just(Ak::CountStar), 35 => Just(Ak::Sum), 25 => Just(Ak::Avg)].boxed()
    };
    (k, prop::bool::weighted(if allow_distinct { 0.15 } else { 0.0 }), 0u8..4).prop_map(|(k, distinct, arg)| DpAgg { k, distinct, arg }).boxed()
}

pub fn query_strategy(groups: Vec<Group>, allow_distinct: bool, allow_var: bool) -> BoxedStrategy<DpQuery> {
    (
        prop_oneof![
            15 => Just(From_::Users), 35 => Just(From_::Orders), 10 => Just(From_::Items), 20 => Just(From_::OrdersJoinUsers), 10 => Just(From_::ItemsJoinOrders),
            10 => Just(From_::OrdersJoinPublicViaUsers), 10 => Just(From_::UsersLeftJoinOrders), 6 => Just(From_::OrdersFullJoinUsersOnKind)
        ],
        proptest::collection::vec(agg_strategy(allow_distinct, allow_var), 1..4),
        prop::sample::select(groups),
        proptest::option::weighted(0.3, (0u8..5, 0u8..7)),
    )
        .prop_map(|(from, aggs, group, filter)| DpQuery { from, aggs, group, filter })
        .boxed()
}
