use proptest::strategy::{Strategy, ValueTree};
use proptest::test_runner::TestRunner;
use qv::props::dp::*;
use qv::props::sqlprops::{compile, Compiled};
fn main() {
    qv::safe::install_hook();
    let mut runner = TestRunner::deterministic();
    let mut s = schema_strategy(4, 8).new_tree(&mut runner).unwrap().current();
    s.chain = true;
    s.pu_variant = std::env::args().nth(1).and_then(|x| x.parse().ok()).unwrap_or(0);
    s.n_items = 5;
    s.n_orders = 5;
    let db = s.db();
    println!("tables: {:?}", db.tables.iter().map(|t| (t.name.clone(), t.nrows, t.cols.iter().map(|c| c.name.clone()).collect::<Vec<_>>())).collect::<Vec<_>>());
    let sql = "SELECT z FROM lines";
    let Compiled::Ok(rel) = compile(sql, &db) else { panic!("compile") };
    let rels = db.relations();
    let r = qv::safe::safe(|| rel.rewrite_as_privacy_unit_preserving(&rels, None, s.privacy_unit(), qrlew::differential_privacy::DpParameters::from_epsilon_delta(1.0, 1e-3), None).map(|x| x.relation().to_string()));
    match r {
        Ok(Ok(t)) => println!("OK {}", &t[..t.len().min(600)]),
        Ok(Err(e)) => println!("ERR {e}"),
        Err(p) => println!("PANIC {} {}", p.loc, p.msg),
    }
}
