use qrlew::data_type::{DataType, Variant as _, value::{Value, Variant as _}, injection::{InjectInto as _, Injection as _}};
fn main() {
    let a = DataType::float_values([19.0, 2.0]);
    let b = DataType::integer();
    println!("type: {:?}", a.into_data_type(&b).map(|t| t.to_string()));
    let v = Value::float(19.0);
    println!("asdt: {:?}", v.as_data_type(&b).map(|t| t.to_string()));
    println!("inj: {:?}", a.inject_into(&b).unwrap().value(&v).map(|t| t.to_string()));
    let b2 = DataType::integer_interval(-1000, 1000);
    println!("inj2: {:?}", a.inject_into(&b2).unwrap().value(&v).map(|t| t.to_string()));
    let a1 = DataType::float_value(19.0);
    println!("type1: {:?}", a1.into_data_type(&b2).map(|t| t.to_string()));
    println!("inj3: {:?}", a1.inject_into(&b2).unwrap().value(&v).map(|t| t.to_string()));
}
