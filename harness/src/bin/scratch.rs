use qrlew::{builder::{Ready, With}, sql::relation::QueryWithRelations, data_type::DataType, relation::{Relation, Variant as _}, sql::parse, hierarchy::Hierarchy};
use std::sync::Arc;
fn main() {
    let table: Relation = Relation::table().name("t").schema(
        qrlew::relation::Schema::builder().with(("x", DataType::integer_interval(1000, 5_000_000_000))).with(("s", DataType::text())).build()
    ).size(100).build();
    let rels: Hierarchy<Arc<Relation>> = Hierarchy::from([(vec!["t".to_string()], Arc::new(table))]);
    for sql in std::env::args().skip(1) {
    let q = parse(&sql).unwrap();
    let t0 = std::time::Instant::now();
    let r = Relation::try_from(QueryWithRelations::new(&q, &rels));
    println!("{} => {:?} in {:?}", sql, r.map(|r| r.schema().to_string()), t0.elapsed());
    }
}
