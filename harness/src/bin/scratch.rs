use qv::props::dp::*;
use qv::props::sqlprops::{compile, Compiled};
use qv::sqlx::privacy::DpSpec;
use qrlew::relation::{Relation, Variant as _};
fn dump(r: &Relation, depth: usize, seen: &mut Vec<*const Relation>) {
    let pad = "  ".repeat(depth);
    if seen.contains(&(r as *const Relation)) { println!("{pad}<shared {}>", r.name()); return; }
    seen.push(r as *const Relation);
    match r {
        Relation::Map(m) => {
            println!("{pad}MAP {} filter={:?} limit={:?}", m.name(), m.filter().as_ref().map(|f| f.to_string()), m.limit());
            for (f, e) in m.schema().iter().zip(m.projection().iter()) { println!("{pad}   {} := {}", f.name(), e.to_string().chars().take(300).collect::<String>()); }
        }
        Relation::Reduce(rd) => {
            println!("{pad}REDUCE {} group_by={:?}", rd.name(), rd.group_by().iter().map(|c| c.to_string()).collect::<Vec<_>>());
            for (f, a) in rd.schema().iter().zip(rd.aggregate().iter()) { println!("{pad}   {} := {}({})", f.name(), a.aggregate(), a.column()); }
        }
        Relation::Join(j) => println!("{pad}JOIN {} {} fields={:?}", j.name(), j.operator().to_string(), j.schema().iter().map(|f| f.name().to_string()).collect::<Vec<_>>()),
        Relation::Table(t) => println!("{pad}TABLE {}", t.name()),
        Relation::Values(v) => println!("{pad}VALUES {}", v.name()),
        Relation::Set(s) => println!("{pad}SET {}", s.name()),
    }
    for i in r.inputs() { dump(i, depth + 1, seen); }
}
fn main() {
    let schema = DpSchema { n_users: 4, n_orders: 8, n_items: 3, x: qv::sqlx::db::ColTy::Float(-5.0, 20.0), x_nullable: false, a: qv::sqlx::db::ColTy::Int(0, 10), y: qv::sqlx::db::ColTy::Int(0, 5), g: vec!["a".into(), "b".into()], kind: vec![0, 1], pk_hi: 500, pu_variant: 0, hash: false, dangling: false, row_picks: vec![7; 400] };
    let db = schema.db();
    for sql in std::env::args().skip(1) {
        let Compiled::Ok(rel) = compile(&sql, &db) else { println!("not compiled"); continue };
        let dp = DpSpec { epsilon: 1.0, delta: 1e-3, tau_share: 0.5, max_mult: 5.0, max_mult_share: 1.0, max_groups: 3 };
        let rw = rel.rewrite_with_differential_privacy(&db.relations(), None, schema.privacy_unit(), dp.params()).unwrap();
        println!("EVENT {}", rw.dp_event());
        dump(rw.relation(), 0, &mut vec![]);
    }
}
