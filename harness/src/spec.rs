//! Spec structs (serialisable, shrinkable) for data types and values, and their conversion to qrlew objects.
use chrono::{NaiveDate, NaiveDateTime, NaiveTime};
use proptest::prelude::*;
use qrlew::data_type::{self, intervals::Intervals, DataType};
use qrlew::data_type::value::Value;
use serde::{Deserialize, Serialize};
use std::sync::Arc;

// ---------------------------------------------------------------------------------------------
// Choice stream: every dependent choice is derived deterministically from generated u16s

#[derive(Clone, Debug)]
pub struct Picks<'a> {
    data: &'a [u16],
    pos: usize,
}

impl<'a> Picks<'a> {
    pub fn new(data: &'a [u16]) -> Picks<'a> {
        Picks { data, pos: 0 }
    }
    pub fn raw(&mut self) -> u16 {
        let v = self.data.get(self.pos).copied().unwrap_or(0);
        self.pos += 1;
        v
    }
    /// monotone index in 0..n
    pub fn idx(&mut self, n: usize) -> usize {
        if n == 0 {
            return 0;
        }
        ((self.raw() as usize) * n) >> 16
    }
    pub fn frac(&mut self) -> f64 {
        self.raw() as f64 / 65536.0
    }
    /// true with probability num/den (false when the stream shrinks to 0)
    pub fn chance(&mut self, num: usize, den: usize) -> bool {
        self.idx(den) >= den - num
    }
    pub fn used(&self) -> usize {
        self.pos
    }
}

pub fn picks_strategy(n: usize) -> impl Strategy<Value = Vec<u16>> {
    proptest::collection::vec(any::<u16>(), n..=n)
}

// ---------------------------------------------------------------------------------------------

#[derive(Clone, Debug, Serialize, Deserialize, PartialEq)]
pub enum TypeSpec {
    Null,
    Unit,
    Any,
    Bytes,
    Id,
    Bool(Vec<bool>),
    Int(Vec<[i64; 2]>),
    Float(Vec<[f64; 2]>),
    Text(Vec<[String; 2]>),
    /// days from CE
    Date(Vec<[i32; 2]>),
    /// seconds from midnight
    Time(Vec<[u32; 2]>),
    /// unix seconds
    DateTime(Vec<[i64; 2]>),
    /// milliseconds
    Duration(Vec<[i64; 2]>),
    Enum(Vec<String>),
    Optional(Box<TypeSpec>),
    Struct(Vec<(String, TypeSpec)>),
    Union(Vec<(String, TypeSpec)>),
    List(Box<TypeSpec>, [i64; 2]),
    Set(Box<TypeSpec>, [i64; 2]),
    Array(Box<TypeSpec>, Vec<usize>),
    Function(Box<TypeSpec>, Box<TypeSpec>),
}

#[derive(Clone, Debug, Serialize, Deserialize, PartialEq)]
pub enum ValueSpec {
    Unit,
    Bool(bool),
    Int(i64),
    Float(f64),
    Text(String),
    Bytes(Vec<u8>),
    Date(i32),
    Time(u32),
    DateTime(i64),
    Duration(i64),
    Id(String),
    Enum(i64, Vec<String>),
    None,
    Some(Box<ValueSpec>),
    Struct(Vec<(String, ValueSpec)>),
    Union(String, Box<ValueSpec>),
    List(Vec<ValueSpec>),
    Set(Vec<ValueSpec>),
    Array(Vec<ValueSpec>, Vec<usize>),
}

pub fn date_of(days: i32) -> NaiveDate {
    use chrono::Datelike;
    let lo = Datelike::num_days_from_ce(&NaiveDate::MIN);
    let hi = Datelike::num_days_from_ce(&NaiveDate::MAX);
    NaiveDate::from_num_days_from_ce_opt(days.clamp(lo, hi)).unwrap_or(NaiveDate::MIN)
}
pub fn days_of(d: &NaiveDate) -> i32 {
    chrono::Datelike::num_days_from_ce(d)
}
pub fn time_of(secs: u32) -> NaiveTime {
    NaiveTime::from_num_seconds_from_midnight_opt(secs.min(86399), 0).unwrap()
}
pub fn datetime_of(secs: i64) -> NaiveDateTime {
    let lo = NaiveDateTime::MIN.and_utc().timestamp();
    let hi = NaiveDateTime::MAX.and_utc().timestamp();
    if secs <= lo {
        NaiveDateTime::MIN
    } else if secs >= hi {
        NaiveDateTime::MAX
    } else {
        chrono::DateTime::from_timestamp(secs, 0)
            .map(|d| d.naive_utc())
            .unwrap_or(NaiveDateTime::MIN)
    }
}
pub fn duration_of(ms: i64) -> chrono::Duration {
    chrono::Duration::try_milliseconds(ms.clamp(-i64::MAX, i64::MAX)).unwrap_or(chrono::Duration::zero())
}

fn intervals_from<B: data_type::intervals::Bound + PartialOrd, T: Clone, F: Fn(&T) -> B>(
    v: &[[T; 2]],
    f: F,
) -> Intervals<B> {
    v.iter().fold(Intervals::<B>::empty(), |acc, [a, b]| {
        let (a, b) = (f(a), f(b));
        if a <= b {
            acc.union_interval(a, b)
        } else {
            acc.union_interval(b, a)
        }
    })
}

impl TypeSpec {
    pub fn to_data_type(&self) -> DataType {
        match self {
            TypeSpec::Null => DataType::Null,
            TypeSpec::Unit => DataType::unit(),
            TypeSpec::Any => DataType::Any,
            TypeSpec::Bytes => DataType::bytes(),
            TypeSpec::Id => DataType::id(),
            TypeSpec::Bool(v) => DataType::Boolean(
                v.iter()
                    .fold(Intervals::<bool>::empty(), |acc, b| acc.union_value(*b)),
            ),
            TypeSpec::Int(v) => DataType::Integer(intervals_from(v, |x| *x)),
            TypeSpec::Float(v) => DataType::Float(intervals_from(v, |x| *x)),
            TypeSpec::Text(v) => DataType::Text(intervals_from(v, |x: &String| x.clone())),
            TypeSpec::Date(v) => DataType::Date(intervals_from(v, |x| date_of(*x))),
            TypeSpec::Time(v) => DataType::Time(intervals_from(v, |x| time_of(*x))),
            TypeSpec::DateTime(v) => DataType::DateTime(intervals_from(v, |x| datetime_of(*x))),
            TypeSpec::Duration(v) => DataType::Duration(intervals_from(v, |x| duration_of(*x))),
            TypeSpec::Enum(names) => DataType::enumeration(names.as_slice()),
            TypeSpec::Optional(t) => DataType::optional(t.to_data_type()),
            TypeSpec::Struct(fs) => DataType::Struct(data_type::Struct::new(
                dedup_names(fs)
                    .into_iter()
                    .map(|(n, t)| (n, Arc::new(t.to_data_type())))
                    .collect(),
            )),
            TypeSpec::Union(fs) => DataType::Union(data_type::Union::new(
                dedup_names(fs)
                    .into_iter()
                    .map(|(n, t)| (n, Arc::new(t.to_data_type())))
                    .collect(),
            )),
            TypeSpec::List(t, [a, b]) => DataType::List(data_type::List::from_data_type_size(
                t.to_data_type(),
                Intervals::from_interval((*a).max(0).min(*b.max(&0)), (*b).max(0).max((*a).max(0))),
            )),
            TypeSpec::Set(t, [a, b]) => DataType::Set(data_type::Set::from_data_type_size(
                t.to_data_type(),
                Intervals::from_interval((*a).max(0).min(*b.max(&0)), (*b).max(0).max((*a).max(0))),
            )),
            TypeSpec::Array(t, shape) => DataType::array(t.to_data_type(), shape.as_slice()),
            TypeSpec::Function(a, b) => DataType::function(a.to_data_type(), b.to_data_type()),
        }
    }

    pub fn variant_name(&self) -> &'static str {
        match self {
            TypeSpec::Null => "null",
            TypeSpec::Unit => "unit",
            TypeSpec::Any => "any",
            TypeSpec::Bytes => "bytes",
            TypeSpec::Id => "id",
            TypeSpec::Bool(_) => "bool",
            TypeSpec::Int(_) => "int",
            TypeSpec::Float(_) => "float",
            TypeSpec::Text(_) => "text",
            TypeSpec::Date(_) => "date",
            TypeSpec::Time(_) => "time",
            TypeSpec::DateTime(_) => "datetime",
            TypeSpec::Duration(_) => "duration",
            TypeSpec::Enum(_) => "enum",
            TypeSpec::Optional(_) => "optional",
            TypeSpec::Struct(_) => "struct",
            TypeSpec::Union(_) => "union",
            TypeSpec::List(..) => "list",
            TypeSpec::Set(..) => "set",
            TypeSpec::Array(..) => "array",
            TypeSpec::Function(..) => "function",
        }
    }

    /// number of interval pieces in the spec of a primitive interval type
    pub fn pieces(&self) -> usize {
        match self {
            TypeSpec::Bool(v) => v.len(),
            TypeSpec::Int(v) => v.len(),
            TypeSpec::Float(v) => v.len(),
            TypeSpec::Text(v) => v.len(),
            TypeSpec::Date(v) => v.len(),
            TypeSpec::Time(v) => v.len(),
            TypeSpec::DateTime(v) => v.len(),
            TypeSpec::Duration(v) => v.len(),
            _ => 0,
        }
    }

    /// Draw a value that belongs to the type *as specified* (None if the type is empty).
    pub fn value_in(&self, p: &mut Picks) -> Option<ValueSpec> {
        Some(match self {
            TypeSpec::Null => return None,
            // always the same variant, so that containers of `any` stay homogeneous
            TypeSpec::Any => ValueSpec::Int(p.idx(5) as i64 - 2),
            TypeSpec::Unit => ValueSpec::Unit,
            TypeSpec::Bytes => ValueSpec::Bytes(vec![p.idx(256) as u8; p.idx(3)]),
            TypeSpec::Id => ValueSpec::Id(format!("id{}", p.idx(5))),
            TypeSpec::Bool(v) => {
                if v.is_empty() {
                    return None;
                }
                ValueSpec::Bool(v[p.idx(v.len())])
            }
            TypeSpec::Int(v) => {
                if v.is_empty() {
                    return None;
                }
                let [a, b] = ordered(v[p.idx(v.len())]);
                ValueSpec::Int(int_in(a, b, p))
            }
            TypeSpec::Float(v) => {
                if v.is_empty() {
                    return None;
                }
                let [a, b] = v[p.idx(v.len())];
                let (a, b) = if a <= b { (a, b) } else { (b, a) };
                ValueSpec::Float(float_in(a, b, p))
            }
            TypeSpec::Text(v) => {
                if v.is_empty() {
                    return None;
                }
                let [a, b] = v[p.idx(v.len())].clone();
                let (a, b) = if a <= b { (a, b) } else { (b, a) };
                ValueSpec::Text(text_in(&a, &b, p))
            }
            TypeSpec::Date(v) => {
                if v.is_empty() {
                    return None;
                }
                let [a, b] = ordered(v[p.idx(v.len())]);
                ValueSpec::Date(int_in(a as i64, b as i64, p) as i32)
            }
            TypeSpec::Time(v) => {
                if v.is_empty() {
                    return None;
                }
                let [a, b] = ordered(v[p.idx(v.len())]);
                ValueSpec::Time(int_in(a as i64, b as i64, p) as u32)
            }
            TypeSpec::DateTime(v) => {
                if v.is_empty() {
                    return None;
                }
                let [a, b] = ordered(v[p.idx(v.len())]);
                ValueSpec::DateTime(int_in(a, b, p))
            }
            TypeSpec::Duration(v) => {
                if v.is_empty() {
                    return None;
                }
                let [a, b] = ordered(v[p.idx(v.len())]);
                ValueSpec::Duration(int_in(a, b, p))
            }
            TypeSpec::Enum(names) => {
                if names.is_empty() {
                    return None;
                }
                ValueSpec::Enum(p.idx(names.len()) as i64, names.clone())
            }
            // DataType::optional flattens nested optionals, so do the values
            TypeSpec::Optional(t) if matches!(**t, TypeSpec::Optional(_)) => return t.value_in(p),
            TypeSpec::Optional(t) => {
                if p.chance(1, 4) {
                    ValueSpec::None
                } else {
                    match t.value_in(p) {
                        Some(v) => ValueSpec::Some(Box::new(v)),
                        None => ValueSpec::None,
                    }
                }
            }
            TypeSpec::Struct(fs) => {
                let mut out = vec![];
                for (n, t) in dedup_names(fs) {
                    out.push((n, t.value_in(p)?));
                }
                ValueSpec::Struct(out)
            }
            TypeSpec::Union(fs) => {
                let fs = dedup_names(fs);
                if fs.is_empty() {
                    return None;
                }
                let start = p.idx(fs.len());
                // first inhabited field from start
                for k in 0..fs.len() {
                    let (n, t) = &fs[(start + k) % fs.len()];
                    if let Some(v) = t.value_in(p) {
                        return Some(ValueSpec::Union(n.clone(), Box::new(v)));
                    }
                }
                return None;
            }
            TypeSpec::List(t, [a, b]) => {
                let (a, b) = ((*a).max(0), (*b).max(0));
                let (a, b) = (a.min(b), a.max(b));
                let n = (a + p.idx(((b - a).min(5) + 1) as usize) as i64).min(6) as usize;
                if (n as i64) < a {
                    return None; // too long to materialise
                }
                let mut out = vec![];
                for _ in 0..n {
                    out.push(t.value_in(p)?);
                }
                ValueSpec::List(out)
            }
            TypeSpec::Set(t, [a, b]) => {
                let (a, b) = ((*a).max(0), (*b).max(0));
                let (a, b) = (a.min(b), a.max(b));
                let n = (a + p.idx(((b - a).min(4) + 1) as usize) as i64).min(5) as usize;
                if (n as i64) < a {
                    return None;
                }
                let mut out: Vec<ValueSpec> = vec![];
                for _ in 0..n {
                    let v = t.value_in(p)?;
                    if !out.contains(&v) {
                        out.push(v);
                    }
                }
                if (out.len() as i64) < a {
                    return None;
                }
                ValueSpec::Set(out)
            }
            TypeSpec::Array(t, shape) => {
                let n: usize = shape.iter().product();
                if n > 12 {
                    return None;
                }
                let mut out = vec![];
                for _ in 0..n {
                    out.push(t.value_in(p)?);
                }
                ValueSpec::Array(out, shape.clone())
            }
            TypeSpec::Function(..) => return None,
        })
    }
}

fn ordered<T: PartialOrd + Copy>(x: [T; 2]) -> [T; 2] {
    if x[0] <= x[1] {
        x
    } else {
        [x[1], x[0]]
    }
}

pub fn dedup_names(fs: &[(String, TypeSpec)]) -> Vec<(String, TypeSpec)> {
    let mut out: Vec<(String, TypeSpec)> = vec![];
    for (n, t) in fs {
        if !out.iter().any(|(m, _)| m == n) {
            out.push((n.clone(), t.clone()));
        }
    }
    out
}

pub fn int_in(a: i64, b: i64, p: &mut Picks) -> i64 {
    let w = (b as i128) - (a as i128);
    match p.idx(8) {
        0 => a,
        1 => b,
        2 => (a as i128 + (p.idx(4) as i128).min(w)) as i64,
        3 => (b as i128 - (p.idx(4) as i128).min(w)) as i64,
        4 => {
            if a <= 0 && 0 <= b {
                0
            } else {
                a
            }
        }
        _ => {
            let f = p.raw() as i128;
            (a as i128 + (w * f) / 65536) as i64
        }
    }
}

pub fn float_in(a: f64, b: f64, p: &mut Picks) -> f64 {
    let clamp = |x: f64| if x < a { a } else if x > b { b } else { x };
    match p.idx(8) {
        0 => a,
        1 => b,
        2 => clamp(next_up(a)),
        3 => clamp(next_down(b)),
        4 => {
            if a <= 0.0 && 0.0 <= b {
                0.0
            } else {
                a
            }
        }
        5 => {
            // an integral point inside if any
            let c = a.ceil();
            if c >= a && c <= b {
                clamp(c + (p.idx(3) as f64)).floor().max(c)
            } else {
                a
            }
        }
        _ => {
            let f = p.frac();
            clamp(a * (1.0 - f) + b * f)
        }
    }
}

pub fn next_up(x: f64) -> f64 {
    if x.is_nan() || x == f64::INFINITY {
        return x;
    }
    if x == 0.0 {
        return f64::from_bits(1);
    }
    let b = x.to_bits();
    if x > 0.0 {
        f64::from_bits(b + 1)
    } else {
        f64::from_bits(b - 1)
    }
}
pub fn next_down(x: f64) -> f64 {
    -next_up(-x)
}

pub fn text_in(a: &str, b: &str, p: &mut Picks) -> String {
    if a == b {
        return a.to_string();
    }
    match p.idx(5) {
        0 => a.to_string(),
        1 => b.to_string(),
        2 => {
            // a followed by a low character is > a; accept if <= b
            let c = format!("{a}\u{1}");
            if c.as_str() <= b {
                c
            } else {
                a.to_string()
            }
        }
        3 => {
            let c = format!("{a}a");
            if c.as_str() <= b {
                c
            } else {
                a.to_string()
            }
        }
        _ => {
            // a string strictly between by bumping the first differing char, if it fits
            let pool = ["", "0", "5", "A", "M", "a", "ab", "b", "m", "z", "é", "~"];
            let c = pool[p.idx(pool.len())];
            if c >= a && c <= b {
                c.to_string()
            } else {
                b.to_string()
            }
        }
    }
}

impl ValueSpec {
    pub fn to_value(&self) -> Value {
        match self {
            ValueSpec::Unit => Value::unit(),
            ValueSpec::Bool(b) => Value::boolean(*b),
            ValueSpec::Int(i) => Value::integer(*i),
            ValueSpec::Float(f) => Value::float(*f),
            ValueSpec::Text(s) => Value::text(s.clone()),
            ValueSpec::Bytes(b) => Value::bytes(b.clone()),
            ValueSpec::Date(d) => Value::date(date_of(*d)),
            ValueSpec::Time(t) => Value::time(time_of(*t)),
            ValueSpec::DateTime(t) => Value::date_time(datetime_of(*t)),
            ValueSpec::Duration(t) => Value::duration(duration_of(*t)),
            ValueSpec::Id(s) => Value::id(s.clone()),
            ValueSpec::Enum(i, names) => {
                let e: Vec<(String, i64)> = names
                    .iter()
                    .enumerate()
                    .map(|(k, n)| (n.clone(), k as i64))
                    .collect();
                // mirror Enum::from(&[S]) ordering
                Value::enumeration(*i, Arc::<[(String, i64)]>::from(e))
            }
            ValueSpec::None => Value::none(),
            ValueSpec::Some(v) => Value::some(v.to_value()),
            ValueSpec::Struct(fs) => Value::Struct(data_type::value::Struct::new(
                fs.iter()
                    .map(|(n, v)| (n.clone(), Arc::new(v.to_value())))
                    .collect(),
            )),
            ValueSpec::Union(n, v) => Value::union(n.clone(), v.to_value()),
            ValueSpec::List(vs) => Value::list(vs.iter().map(|v| v.to_value())),
            ValueSpec::Set(vs) => Value::set(vs.iter().map(|v| v.to_value())),
            ValueSpec::Array(vs, shape) => {
                let vals: Vec<Value> = vs.iter().map(|v| v.to_value()).collect();
                Value::Array(data_type::value::Array::from((vals, shape.clone())))
            }
        }
    }
}

// ---------------------------------------------------------------------------------------------
// Strategies

pub fn i64_atom() -> BoxedStrategy<i64> {
    prop_oneof![
        50 => -20i64..=20,
        20 => -1000i64..=1000,
        15 => prop::sample::select(vec![
            i64::MIN, i64::MIN + 1, -(1i64 << 53) - 1, -(1i64 << 53), -1, 0, 1, 2, (1i64 << 53) - 1, 1i64 << 53, (1i64 << 53) + 1,
            i64::MAX - 1, i64::MAX, 255, 256, 65535, 1 << 31, (1 << 31) - 1, -(1 << 31),
        ]),
        15 => any::<i64>(),
    ]
    .boxed()
}

pub fn f64_atom() -> BoxedStrategy<f64> {
    prop_oneof![
        35 => (-20i64..=20).prop_map(|x| x as f64),
        15 => (-40i64..=40).prop_map(|x| x as f64 / 2.0),
        10 => (-1000i64..=1000).prop_map(|x| x as f64 / 10.0),
        20 => prop::sample::select(vec![
            f64::MIN, -1e308, -1e300, -((1u64 << 53) as f64), -1e10, -1.0, -0.5, -0.1, -f64::MIN_POSITIVE, -0.0, 0.0, f64::MIN_POSITIVE, 1e-300,
            0.1, 0.5, 1.0, std::f64::consts::PI, 1e10, (1u64 << 53) as f64, 9.3e18, 1e300, 1e308, f64::MAX, f64::EPSILON, 709.0, 710.0, -745.0,
        ]),
        20 => proptest::num::f64::NORMAL | proptest::num::f64::ZERO | proptest::num::f64::SUBNORMAL,
    ]
    .boxed()
}

pub fn text_atom() -> BoxedStrategy<String> {
    prop_oneof![
        70 => prop::sample::select(vec![
            "", "\u{0}", "0", "1", "10", "9", "-1", "1.5", "A", "B", "a", "ab", "abc", "b", "c", "m", "z", "zz", "true", "false", "é", "'", "\"", "a b",
            "2020-01-01", "\u{10FFFF}", "~",
        ]).prop_map(|s| s.to_string()),
        30 => "[a-d0-2]{0,3}",
    ]
    .boxed()
}

fn pairs<T: Clone + 'static>(mut v: Vec<T>, points: bool, cmp: impl Fn(&T, &T) -> std::cmp::Ordering) -> Vec<[T; 2]> {
    v.sort_by(|a, b| cmp(a, b));
    if points {
        v.into_iter().map(|x| [x.clone(), x]).collect()
    } else {
        v.chunks(2)
            .map(|c| if c.len() == 2 { [c[0].clone(), c[1].clone()] } else { [c[0].clone(), c[0].clone()] })
            .collect()
    }
}

/// number of atoms: mostly small, sometimes around the 128-interval capacity
fn atom_count() -> BoxedStrategy<usize> {
    prop_oneof![
        6 => 0usize..=1,
        70 => 1usize..=6,
        16 => 6usize..=20,
        8 => 120usize..=140,
    ]
    .boxed()
}

pub fn int_type() -> BoxedStrategy<TypeSpec> {
    (atom_count(), any::<bool>())
        .prop_flat_map(|(n, points)| {
            let k = if points { n } else { 2 * n };
            (proptest::collection::vec(i64_atom(), k..=k), Just(points))
        })
        .prop_map(|(v, points)| TypeSpec::Int(pairs(v, points, |a, b| a.cmp(b))))
        .boxed()
}

pub fn float_type() -> BoxedStrategy<TypeSpec> {
    (atom_count(), any::<bool>())
        .prop_flat_map(|(n, points)| {
            let k = if points { n } else { 2 * n };
            (proptest::collection::vec(f64_atom(), k..=k), Just(points))
        })
        .prop_map(|(v, points)| TypeSpec::Float(pairs(v, points, |a, b| a.total_cmp(b))))
        .boxed()
}

pub fn text_type() -> BoxedStrategy<TypeSpec> {
    (0usize..=6, prop::bool::weighted(0.7))
        .prop_flat_map(|(n, points)| {
            let k = if points { n } else { 2 * n };
            (proptest::collection::vec(text_atom(), k..=k), Just(points))
        })
        .prop_map(|(v, points)| TypeSpec::Text(pairs(v, points, |a, b| a.cmp(b))))
        .boxed()
}

pub fn bool_type() -> BoxedStrategy<TypeSpec> {
    prop::sample::select(vec![vec![], vec![false], vec![true], vec![false, true]])
        .prop_map(TypeSpec::Bool)
        .boxed()
}

fn small_intervals_i64(center: i64, spread: i64, lo: i64, hi: i64) -> BoxedStrategy<Vec<[i64; 2]>> {
    (0usize..=4, any::<bool>())
        .prop_flat_map(move |(n, points)| {
            let k = if points { n } else { 2 * n };
            let atom = prop_oneof![
                85 => (center - spread)..=(center + spread),
                15 => prop::sample::select(vec![lo, hi, lo + 1, hi - 1]),
            ];
            (proptest::collection::vec(atom, k..=k), Just(points))
        })
        .prop_map(|(v, points)| pairs(v, points, |a, b| a.cmp(b)))
        .boxed()
}

pub fn date_type() -> BoxedStrategy<TypeSpec> {
    let lo = NaiveDate::MIN.num_days_from_ce_pub() as i64;
    let hi = NaiveDate::MAX.num_days_from_ce_pub() as i64;
    small_intervals_i64(730_000, 20_000, lo, hi)
        .prop_map(|v| TypeSpec::Date(v.into_iter().map(|[a, b]| [a as i32, b as i32]).collect()))
        .boxed()
}

trait DaysPub {
    fn num_days_from_ce_pub(&self) -> i32;
}
impl DaysPub for NaiveDate {
    fn num_days_from_ce_pub(&self) -> i32 {
        chrono::Datelike::num_days_from_ce(self)
    }
}

pub fn time_type() -> BoxedStrategy<TypeSpec> {
    small_intervals_i64(43_200, 43_199, 0, 86_399)
        .prop_map(|v| {
            TypeSpec::Time(
                v.into_iter()
                    .map(|[a, b]| [a.clamp(0, 86399) as u32, b.clamp(0, 86399) as u32])
                    .collect(),
            )
        })
        .boxed()
}

pub fn datetime_type() -> BoxedStrategy<TypeSpec> {
    let lo = NaiveDateTime::MIN.and_utc().timestamp();
    let hi = NaiveDateTime::MAX.and_utc().timestamp();
    small_intervals_i64(1_000_000_000, 1_000_000_000, lo, hi)
        .prop_map(TypeSpec::DateTime)
        .boxed()
}

pub fn duration_type() -> BoxedStrategy<TypeSpec> {
    small_intervals_i64(0, 10_000_000, -i64::MAX, i64::MAX)
        .prop_map(TypeSpec::Duration)
        .boxed()
}

pub fn field_name() -> BoxedStrategy<String> {
    prop::sample::select(vec!["a", "b", "c", "d", "x", "y"])
        .prop_map(|s| s.to_string())
        .boxed()
}

pub fn primitive_type() -> BoxedStrategy<TypeSpec> {
    prop_oneof![
        6 => bool_type(),
        20 => int_type(),
        20 => float_type(),
        12 => text_type(),
        5 => date_type(),
        3 => time_type(),
        5 => datetime_type(),
        3 => duration_type(),
        2 => Just(TypeSpec::Unit),
        2 => Just(TypeSpec::Null),
        2 => Just(TypeSpec::Any),
        2 => Just(TypeSpec::Bytes),
        2 => Just(TypeSpec::Id),
        2 => proptest::collection::vec(prop::sample::select(vec!["lo", "mid", "hi", "x"]).prop_map(|s| s.to_string()), 1..4)
            .prop_map(|mut v| { v.dedup(); TypeSpec::Enum(v) }),
    ]
    .boxed()
}

/// all data types, composite liftings up to `depth`
pub fn any_type(depth: u32) -> BoxedStrategy<TypeSpec> {
    if depth == 0 {
        return primitive_type();
    }
    let inner = any_type(depth - 1);
    prop_oneof![
        55 => primitive_type(),
        12 => inner.clone().prop_map(|t| TypeSpec::Optional(Box::new(t))),
        10 => proptest::collection::vec((field_name(), inner.clone()), 0..4).prop_map(TypeSpec::Struct),
        8 => proptest::collection::vec((field_name(), inner.clone()), 0..4).prop_map(TypeSpec::Union),
        6 => (inner.clone(), 0i64..4, 0i64..6).prop_map(|(t, a, b)| TypeSpec::List(Box::new(t), [a.min(b), a.max(b)])),
        4 => (inner.clone(), 0i64..3, 0i64..5).prop_map(|(t, a, b)| TypeSpec::Set(Box::new(t), [a.min(b), a.max(b)])),
        3 => (inner.clone(), proptest::collection::vec(1usize..3, 1..3)).prop_map(|(t, s)| TypeSpec::Array(Box::new(t), s)),
        2 => (inner.clone(), inner).prop_map(|(a, b)| TypeSpec::Function(Box::new(a), Box::new(b))),
    ]
    .boxed()
}

/// primitive column types (no enum): what a table cell can be
pub fn cell_prim_type() -> BoxedStrategy<TypeSpec> {
    prop_oneof![
        8 => bool_type(),
        24 => int_type(),
        24 => float_type(),
        14 => text_type(),
        6 => date_type(),
        3 => time_type(),
        6 => datetime_type(),
        3 => duration_type(),
        2 => Just(TypeSpec::Unit),
        2 => Just(TypeSpec::Null),
        2 => Just(TypeSpec::Any),
        2 => Just(TypeSpec::Bytes),
        2 => Just(TypeSpec::Id),
    ]
    .boxed()
}

pub fn cell_type() -> BoxedStrategy<TypeSpec> {
    prop_oneof![
        3 => cell_prim_type(),
        1 => cell_prim_type().prop_map(|t| TypeSpec::Optional(Box::new(t))),
    ]
    .boxed()
}

/// the fragment of the type language the relational engine uses (see member::is_relational)
pub fn relational_type() -> BoxedStrategy<TypeSpec> {
    prop_oneof![
        60 => cell_type(),
        25 => proptest::collection::vec((field_name(), cell_type()), 1..4).prop_map(TypeSpec::Struct),
        15 => (cell_type(), 0i64..4, 0i64..6).prop_map(|(t, a, b)| TypeSpec::List(Box::new(t), [a.min(b), a.max(b)])),
    ]
    .boxed()
}

/// composite liftings without union / function / enum (conversions towards unions recurse without bound in the library)
pub fn lifted_type(depth: u32) -> BoxedStrategy<TypeSpec> {
    if depth == 0 {
        return cell_prim_type();
    }
    let inner = lifted_type(depth - 1);
    prop_oneof![
        50 => cell_prim_type(),
        15 => inner.clone().prop_map(|t| TypeSpec::Optional(Box::new(t))),
        15 => proptest::collection::vec((field_name(), inner.clone()), 0..4).prop_map(TypeSpec::Struct),
        10 => (inner.clone(), 0i64..4, 0i64..6).prop_map(|(t, a, b)| TypeSpec::List(Box::new(t), [a.min(b), a.max(b)])),
        5 => (inner.clone(), 0i64..3, 0i64..5).prop_map(|(t, a, b)| TypeSpec::Set(Box::new(t), [a.min(b), a.max(b)])),
        5 => (inner, proptest::collection::vec(1usize..3, 1..3)).prop_map(|(t, s)| TypeSpec::Array(Box::new(t), s)),
    ]
    .boxed()
}
