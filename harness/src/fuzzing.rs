//! Coverage-guided fuzzing (libFuzzer through cargo-fuzz) of two legs whose inputs are small enough to decode by hand:
//! C15 (path maps and lookups) and C11 (interval-set operation histories). The targets call the very same check
//! functions as the proptest legs; a violation that no open finding explains is written as an ordinary replay file
//! (the decoded spec), announced as a VIOLATION line and turned into an abort so that libFuzzer stops.
//!
//! Driving the proptest strategies themselves from the fuzzer's bytes (`RngAlgorithm::PassThrough`) was tried and does
//! not work: proptest forks the pass-through stream by halving the remaining bytes at every lazily built alternative,
//! so any non-trivial strategy runs out of bytes after a few dozen forks, and rand 0.9's rejection sampling never
//! terminates on the all-zero stream that follows.
use crate::props::*;
use crate::run::*;
use serde_json::Value as J;
use std::sync::OnceLock;

pub struct Bytes<'a> {
    d: &'a [u8],
    i: usize,
}

impl<'a> Bytes<'a> {
    pub fn new(d: &'a [u8]) -> Self {
        Bytes { d, i: 0 }
    }
    pub fn u8(&mut self) -> u8 {
        let b = self.d.get(self.i).cloned().unwrap_or(0);
        self.i += 1;
        b
    }
    pub fn u16(&mut self) -> u16 {
        u16::from_le_bytes([self.u8(), self.u8()])
    }
    pub fn below(&mut self, n: u32) -> u32 {
        if n <= 1 {
            return 0;
        }
        if n <= 256 {
            self.u8() as u32 % n
        } else {
            self.u16() as u32 % n
        }
    }
    pub fn left(&self) -> usize {
        self.d.len().saturating_sub(self.i)
    }
}

pub fn decode_c15(data: &[u8]) -> c15::MapCase {
    let mut b = Bytes::new(data);
    let ne = b.below(12) as usize;
    let entries = (0..ne)
        .map(|_| {
            let n = b.below(5) as usize;
            (0..n).map(|_| b.below(4) as u8).collect()
        })
        .collect();
    let nl = 1 + b.below(16) as usize;
    let lookups = (0..nl)
        .map(|_| match b.below(4) {
            0 => c15::Lookup::SuffixOf(b.u16(), b.below(4) as u8),
            1 => c15::Lookup::Extend(b.u16(), b.below(4) as u8),
            2 => c15::Lookup::Mutate(b.u16(), b.below(4) as u8, b.below(4) as u8),
            _ => {
                let n = b.below(5) as usize;
                c15::Lookup::Fresh((0..n).map(|_| b.below(4) as u8).collect())
            }
        })
        .collect();
    c15::MapCase { entries, lookups }
}

pub fn decode_c11_history(data: &[u8]) -> c11::HistorySpec {
    const DOM: i64 = 420;
    let mut b = Bytes::new(data);
    let growth = match b.below(4) {
        0 | 1 => 0,
        2 => 1 + b.below(99) as u16,
        _ => 110 + b.below(90) as u16,
    };
    let stride = [2u16, 3, 7][b.below(3) as usize];
    let mut ops = vec![];
    while b.left() > 0 && ops.len() < 40 {
        let p = |b: &mut Bytes| b.below(DOM as u32) as i64;
        let iv = |b: &mut Bytes, wmax: u32| {
            let a = b.below(DOM as u32) as i64;
            [a, (a + b.below(wmax) as i64).min(DOM - 1)]
        };
        ops.push(match b.below(5) {
            0 => {
                let [a, c] = iv(&mut b, 200);
                c11::Op::UnionInterval(a, c)
            }
            1 => c11::Op::UnionValue(p(&mut b)),
            2 => {
                let [a, c] = iv(&mut b, DOM as u32);
                c11::Op::IntersectionInterval(a, c)
            }
            3 => {
                let n = b.below(6);
                c11::Op::Union((0..n).map(|_| iv(&mut b, 40)).collect())
            }
            _ => {
                let n = b.below(4);
                c11::Op::Intersection((0..n).map(|_| iv(&mut b, 300)).collect())
            }
        });
    }
    c11::HistorySpec { growth, stride, ops }
}

pub const LEGS: [(&str, &str); 2] = [("C15", "maps"), ("C11", "histories")];

/// decodes the bytes into a case of the leg and checks it: (spec, violated obligations)
pub fn run_bytes(prop: &str, leg: &str, data: &[u8], st: &mut Stats) -> Option<(J, Vec<Fail>)> {
    match (prop, leg) {
        ("C15", "maps") => {
            let c = decode_c15(data);
            Some((serde_json::to_value(&c).ok()?, c15::check_map(&c, st)))
        }
        ("C11", "histories") => {
            let c = decode_c11_history(data);
            Some((serde_json::to_value(&c).ok()?, c11::check_history(&c, st)))
        }
        _ => None,
    }
}

static FINDINGS: OnceLock<Findings> = OnceLock::new();

/// one libFuzzer iteration
pub fn fuzz_one(prop: &str, leg: &str, data: &[u8]) {
    // libfuzzer-sys installs a hook that aborts on any panic; the checks catch the library's panics themselves
    crate::safe::install_hook();
    let findings = FINDINGS.get_or_init(Findings::load);
    let mut st = Stats::new();
    let Some((spec, fails)) = run_bytes(prop, leg, data, &mut st) else { return };
    if let Some(f) = fails.into_iter().find(|f| findings.open_match(prop, &f.key).is_none()) {
        let found = Found { leg: leg.to_string(), fail: f, spec };
        let path = write_replay_to("violations", prop, &found, "fuzz");
        println!("VIOLATION property={} replay={}", prop, path.display());
        println!("  leg: {leg} (fuzz)\n  key: {}\n  detail: {}", found.fail.key, found.fail.detail);
        std::process::abort();
    }
}
