use qv::props;
use qv::run::*;
use std::path::{Path, PathBuf};
use std::time::Instant;

fn usage() -> ! {
    eprintln!("usage: qv check <ID> | qv replay <file> [--strict]");
    std::process::exit(2)
}

fn run_replay_file(path: &Path) -> Result<(ReplayFile, Vec<Fail>), String> {
    let rf = read_replay(path)?;
    let (_, replay) = props::lookup(&rf.property).ok_or(format!("unknown property {}", rf.property))?;
    let mut st = Stats::new();
    let fails = replay(&rf.leg, &rf.spec, &mut st)?;
    if std::env::var("QV_DEBUG").is_ok() {
        eprintln!("classes reached by the replay: {:?}", st.classes);
    }
    Ok((rf, fails))
}

fn main() {
    qv::safe::install_hook();
    let args: Vec<String> = std::env::args().collect();
    if args.len() < 3 {
        usage();
    }
    match args[1].as_str() {
        "check" => std::process::exit(check(&args[2])),
        "worker" => {
            match args[2].as_str() {
                "C18" => props::c18::serve(),
                _ => usage(),
            }
            std::process::exit(0)
        }
        "replay" => {
            let findings = Findings::load();
            match run_replay_file(Path::new(&args[2])) {
                Ok((rf, fails)) => {
                    if fails.is_empty() {
                        println!("replay {}: property {} holds on this input", args[2], rf.property);
                        std::process::exit(0);
                    }
                    let mut code = 0;
                    for f in &fails {
                        match findings.open_match(&rf.property, &f.key) {
                            Some(k) => println!("KNOWN-FINDING: property={} {} [{}] {}", rf.property, k.id, f.key, f.detail),
                            None => {
                                println!("VIOLATION property={} replay={}", rf.property, args[2]);
                                println!("  key: {}\n  detail: {}", f.key, f.detail);
                                code = 1;
                            }
                        }
                    }
                    std::process::exit(code);
                }
                Err(e) => {
                    eprintln!("replay error: {e}");
                    std::process::exit(2);
                }
            }
        }
        _ => usage(),
    }
}

fn check(id: &str) -> i32 {
    let t0 = Instant::now();
    let ctx = Ctx::from_env();
    let findings = Findings::load();
    let Some((run, _)) = props::lookup(id) else {
        eprintln!("unknown property {id}");
        return 2;
    };
    let mut violations: Vec<String> = vec![];
    let mut known_lines: Vec<String> = vec![];
    let mut harness_errors: Vec<String> = vec![];

    // ---- replay tier
    let mut referenced: Vec<PathBuf> = vec![];
    for f in findings.for_property(id) {
        let Some(repro) = &f.repro else { continue };
        let path = Path::new(VERIF_ROOT).join(repro);
        referenced.push(path.clone());
        match run_replay_file(&path) {
            Ok((_, fails)) => {
                if f.status == "open" {
                    let hit = fails.iter().find(|x| f.signatures.iter().any(|s| sig_matches(s, &x.key)));
                    match hit {
                        Some(_) => {
                            let line = format!("KNOWN-FINDING: property={} {} {}", id, f.id, f.what);
                            println!("{line}");
                            known_lines.push(line);
                        }
                        None => println!("STALE-FINDING: property={} {} no longer reproduces from {}", id, f.id, repro),
                    }
                    for x in fails {
                        if findings.open_match(id, &x.key).is_none() {
                            println!("VIOLATION property={} replay={}", id, path.display());
                            println!("  key: {}\n  detail: {}", x.key, x.detail);
                            violations.push(x.key);
                        }
                    }
                } else {
                    for x in fails {
                        if findings.open_match(id, &x.key).is_none() {
                            println!("VIOLATION property={} replay={}", id, path.display());
                            println!("  (regression of fixed finding {}) key: {}\n  detail: {}", f.id, x.key, x.detail);
                            violations.push(x.key);
                        }
                    }
                }
            }
            Err(e) => harness_errors.push(format!("replay of {repro}: {e}")),
        }
    }
    let dir = Path::new(VERIF_ROOT).join("replays").join(id);
    if let Ok(rd) = std::fs::read_dir(&dir) {
        let mut files: Vec<PathBuf> = rd.filter_map(|e| e.ok()).map(|e| e.path()).filter(|p| p.extension().map_or(false, |x| x == "json")).collect();
        files.sort();
        for path in files {
            if referenced.contains(&path) {
                continue;
            }
            match run_replay_file(&path) {
                Ok((_, fails)) => {
                    for x in fails {
                        if findings.open_match(id, &x.key).is_none() {
                            println!("VIOLATION property={} replay={}", id, path.display());
                            println!("  key: {}\n  detail: {}", x.key, x.detail);
                            violations.push(x.key);
                        }
                    }
                }
                Err(e) => harness_errors.push(format!("replay of {}: {e}", path.display())),
            }
        }
    }

    // ---- search tier
    let rep = run(&ctx, &findings);
    for leg in &rep.legs {
        if let Some(found) = &leg.found {
            if found.fail.key == "HARNESS-ABORT" {
                harness_errors.push(format!("leg {}: {}", leg.leg, found.fail.detail));
                continue;
            }
            let path = write_violation(id, found);
            println!("VIOLATION property={} replay={}", id, path.display());
            println!("  leg: {}\n  key: {}\n  detail: {}", found.leg, found.fail.key, found.fail.detail);
            violations.push(found.fail.key.clone());
        }
    }
    let tot = rep.total();
    if ctx.survey {
        for (k, (n, ex)) in &tot.survey {
            let ex: String = ex.chars().take(600).collect();
            println!("SURVEY {n:>8}  {k}\n          e.g. {ex}");
        }
        return 2;
    }
    for (k, n) in &tot.known {
        println!("note: {n} generated cases hit known finding {k} (suppressed by signature)");
        // a finding whose saved input no longer reproduces (the library is not deterministic in places) but which this
        // run's search met again is still announced
        if !known_lines.iter().any(|l| l.contains(&format!(" {k} "))) {
            if let Some(f) = findings.for_property(id).into_iter().find(|f| &f.id == k && f.status == "open") {
                let line = format!("KNOWN-FINDING: property={} {} {} (met {n} times by this run's search)", id, f.id, f.what);
                println!("{line}");
                known_lines.push(line);
            }
        }
    }
    let wall = t0.elapsed().as_secs_f64();
    write_evidence(&ctx, &rep, wall, violations.len(), &known_lines);
    println!(
        "{id}: tier={} seed={} evaluations={} distinct_nontrivial={} violations={} wall={:.1}s",
        ctx.tier_name(),
        ctx.seed,
        tot.evaluations,
        tot.nontrivial.len(),
        violations.len(),
        wall
    );
    if !violations.is_empty() {
        return 1;
    }
    if !harness_errors.is_empty() || !rep.inconclusive.is_empty() {
        for e in harness_errors.iter().chain(rep.inconclusive.iter()) {
            println!("INCONCLUSIVE: {e}");
        }
        return 2;
    }
    0
}

fn write_violation(prop: &str, found: &Found) -> PathBuf {
    let dir = Path::new(VERIF_ROOT).join("violations").join(prop);
    let _ = std::fs::create_dir_all(&dir);
    let rf = ReplayFile {
        property: prop.to_string(),
        leg: found.leg.clone(),
        key: found.fail.key.clone(),
        detail: found.fail.detail.clone(),
        spec: found.spec.clone(),
    };
    let h = hash_json(&rf) % 0xffff_ffff;
    let path = dir.join(format!("{}_{:08x}.json", found.leg, h));
    let _ = std::fs::write(&path, serde_json::to_string_pretty(&rf).unwrap());
    path
}
