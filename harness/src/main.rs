fn main() { qv::hello(); }
