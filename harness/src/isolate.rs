//! Child-process isolation: the same binary run as `qv worker <kind>`, fed one JSON request per line.
//! The child prints `S <stage>` progress markers and one `R <json>` result line per request.
use std::io::{BufRead, BufReader, Write};
use std::process::{Child, ChildStdin, Command, Stdio};
use std::sync::mpsc::{channel, Receiver, RecvTimeoutError};
use std::time::{Duration, Instant};

pub struct Worker {
    child: Child,
    stdin: ChildStdin,
    rx: Receiver<String>,
    kind: String,
}

pub enum Call {
    Ok(String),
    /// no answer within the budget; the child was killed
    Timeout { last_stage: String, waited_s: f64 },
    /// the child died (abort, stack overflow, allocation failure, signal)
    Died { last_stage: String, status: String },
}

impl Worker {
    pub fn spawn(kind: &str) -> std::io::Result<Worker> {
        let exe = std::env::current_exe()?;
        let mut child = Command::new(exe).arg("worker").arg(kind).stdin(Stdio::piped()).stdout(Stdio::piped()).stderr(Stdio::null()).spawn()?;
        let stdin = child.stdin.take().unwrap();
        let stdout = child.stdout.take().unwrap();
        let (tx, rx) = channel();
        std::thread::spawn(move || {
            let r = BufReader::new(stdout);
            for line in r.lines() {
                match line {
                    Ok(l) => {
                        if tx.send(l).is_err() {
                            break;
                        }
                    }
                    Err(_) => break,
                }
            }
        });
        Ok(Worker { child, stdin, rx, kind: kind.to_string() })
    }

    fn respawn(&mut self) {
        let _ = self.child.kill();
        let _ = self.child.wait();
        if let Ok(w) = Worker::spawn(&self.kind) {
            *self = w;
        }
    }

    pub fn call(&mut self, req: &str, timeout: Duration) -> Call {
        let t0 = Instant::now();
        let mut last_stage = String::from("start");
        if writeln!(self.stdin, "{}", req.replace('\n', " ")).is_err() || self.stdin.flush().is_err() {
            let status = self.child.wait().map(|s| format!("{s}")).unwrap_or_default();
            self.respawn();
            return Call::Died { last_stage, status };
        }
        loop {
            let left = timeout.checked_sub(t0.elapsed()).unwrap_or(Duration::from_millis(1));
            match self.rx.recv_timeout(left) {
                Ok(line) => {
                    if let Some(s) = line.strip_prefix("S ") {
                        last_stage = s.to_string();
                    } else if let Some(r) = line.strip_prefix("R ") {
                        return Call::Ok(r.to_string());
                    }
                }
                Err(RecvTimeoutError::Timeout) => {
                    let waited_s = t0.elapsed().as_secs_f64();
                    self.respawn();
                    return Call::Timeout { last_stage, waited_s };
                }
                Err(RecvTimeoutError::Disconnected) => {
                    let status = self.child.wait().map(|s| format!("{s}")).unwrap_or_default();
                    self.respawn();
                    return Call::Died { last_stage, status };
                }
            }
        }
    }
}

impl Drop for Worker {
    fn drop(&mut self) {
        let _ = self.child.kill();
        let _ = self.child.wait();
    }
}

/// called at the start of a worker process: cap the address space so that allocation bombs abort the child only
pub fn limit_memory(bytes: u64) {
    unsafe {
        let lim = libc::rlimit { rlim_cur: bytes, rlim_max: bytes };
        libc::setrlimit(libc::RLIMIT_AS, &lim);
    }
}

/// serve requests from stdin with `handle(request, stage_marker) -> response`
pub fn serve(handle: impl Fn(&str, &dyn Fn(&str)) -> String) {
    let stdin = std::io::stdin();
    let out = std::io::stdout();
    for line in stdin.lock().lines() {
        let Ok(line) = line else { break };
        let mark = |s: &str| {
            let mut o = out.lock();
            let _ = writeln!(o, "S {s}");
            let _ = o.flush();
        };
        let resp = handle(&line, &mark);
        let mut o = out.lock();
        let _ = writeln!(o, "R {}", resp.replace('\n', " "));
        let _ = o.flush();
    }
}
