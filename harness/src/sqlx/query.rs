//! Query skeletons (serialisable) and their rendering to SQL text against a DbSpec. Column references are indices that
//! are resolved against the scope at rendering time, so every rendered query is well-formed by construction.
use super::db::{ColTy, DbSpec};
use proptest::prelude::*;
use serde::{Deserialize, Serialize};

#[derive(Clone, Copy, Debug, PartialEq, Serialize, Deserialize)]
pub enum Kind {
    Int,
    Float,
    Text,
    Date,
}

impl Kind {
    pub fn numeric(self) -> bool {
        matches!(self, Kind::Int | Kind::Float)
    }
}

#[derive(Clone, Debug)]
pub struct VisCol {
    pub qual: String,
    pub name: String,
    pub kind: Kind,
    pub nullable: bool,
    /// numeric range when known (for literals placed near the data)
    pub range: Option<(f64, f64)>,
    pub texts: Vec<String>,
    pub unique: bool,
}

pub type Scope = Vec<VisCol>;

#[derive(Clone, Debug, Serialize, Deserialize)]
pub enum NumE {
    Col(u16),
    Int(i8),
    Quarter(i8),
    Near(u16, i8),
    Add(Box<NumE>, Box<NumE>),
    Sub(Box<NumE>, Box<NumE>),
    MulLit(Box<NumE>, i8),
    DivLit(Box<NumE>, i8),
    ModLit(Box<NumE>, u8),
    Neg(Box<NumE>),
    Abs(Box<NumE>),
    Len(Box<TxtE>),
    Case(Box<Pr>, Box<NumE>, Box<NumE>),
    Coalesce(Box<NumE>, Box<NumE>),
    CastFloat(Box<NumE>),
}

#[derive(Clone, Debug, Serialize, Deserialize)]
pub enum TxtE {
    Col(u16),
    Lit(u8),
    Upper(Box<TxtE>),
    Lower(Box<TxtE>),
    Concat(Box<TxtE>, Box<TxtE>),
    /// CONCAT(a, b, ...) function form, 2 to 4 arguments
    ConcatN(Vec<TxtE>),
    Case(Box<Pr>, Box<TxtE>, Box<TxtE>),
    Coalesce(Box<TxtE>, Box<TxtE>),
}

#[derive(Clone, Debug, Serialize, Deserialize)]
pub enum Pr {
    CmpN(u8, NumE, NumE),
    CmpT(u8, TxtE, TxtE),
    IsNullAny(u16, bool),
    InN(NumE, Vec<NumE>),
    InT(TxtE, Vec<u8>),
    Between(NumE, NumE, NumE),
    And(Box<Pr>, Box<Pr>),
    Or(Box<Pr>, Box<Pr>),
    Not(Box<Pr>),
}

#[derive(Clone, Debug, Serialize, Deserialize)]
pub enum ItemE {
    AnyCol(u16),
    Num(NumE),
    Txt(TxtE),
}

#[derive(Clone, Debug, Serialize, Deserialize)]
pub struct Item {
    pub e: ItemE,
    pub alias: Option<u8>,
}

#[derive(Clone, Copy, Debug, Serialize, Deserialize, PartialEq)]
pub enum AggK {
    CountStar,
    Count,
    Sum,
    Avg,
    Min,
    Max,
    Stddev,
    Variance,
}

#[derive(Clone, Debug, Serialize, Deserialize)]
pub struct AggE {
    pub k: AggK,
    pub distinct: bool,
    pub arg: NumE,
}

#[derive(Clone, Debug, Serialize, Deserialize)]
pub enum AggItem {
    A(AggE),
    /// aggregate (+|-|*) small literal
    ALit(u8, AggE, i8),
    /// aggregate (+|-) aggregate
    AA(u8, AggE, AggE),
}

#[derive(Clone, Debug, Serialize, Deserialize)]
pub enum Key {
    Col(u16),
    /// group by an expression; when `by_alias` the select list names it and GROUP BY uses the alias
    Expr(NumE, bool, Option<u8>),
}

#[derive(Clone, Debug, Serialize, Deserialize)]
pub enum Body {
    Star,
    Plain(Vec<Item>),
    Grouped { keys: Vec<Key>, project_keys: Vec<bool>, aggs: Vec<AggItem>, having: Option<(u8, AggE, i8)> },
    Global(Vec<AggItem>),
}

#[derive(Clone, Copy, Debug, Serialize, Deserialize, PartialEq)]
pub enum Jk {
    Inner,
    Left,
    Right,
    Full,
    Cross,
}

#[derive(Clone, Debug, Serialize, Deserialize)]
pub enum Jc {
    /// ON l = r [AND col op literal-near-col]; the extra term always mentions a column (a constant-false ON term before
    /// a FULL/RIGHT JOIN makes SQLite 3.40 drop every row, which is an engine bug, not a library one)
    On(u16, u16, Option<(u8, u16, i8)>),
    /// ON l1 = r1 OR l2 = r2
    OnOr(u16, u16, u16, u16),
    Using,
    Natural,
}

#[derive(Clone, Debug, Serialize, Deserialize)]
pub enum Fr {
    T(u8, bool),
    J(Box<Fr>, u8, Jk, Jc),
    Sub(Box<Sel>),
    /// derived table with its own WITH clause (CTE names c0, c1 shadow outer ones)
    SubW(Vec<Sel>, Box<Sel>),
    Cte(u8),
}

#[derive(Clone, Debug, Serialize, Deserialize)]
pub struct Sel {
    pub distinct: bool,
    pub from: Fr,
    pub body: Body,
    pub where_: Option<Pr>,
    pub order: Vec<(u8, bool)>,
    pub limit: Option<u8>,
    pub offset: Option<u8>,
}

#[derive(Clone, Debug, Serialize, Deserialize)]
pub enum Q {
    S(Sel),
    /// set operation between two plain numeric selects: op 0 UNION 1 INTERSECT 2 EXCEPT
    Set(Box<Sel>, u8, bool, Box<Sel>),
    With(Vec<Sel>, Box<Q>),
}

/// what the renderer learned about the rendered query
#[derive(Clone, Debug, Default)]
pub struct Info {
    /// output columns: (name if determined by alias/column, kind)
    pub out: Vec<(Option<String>, Kind)>,
    /// indices (into out) and direction of a top-level ORDER BY
    pub order: Vec<(usize, bool)>,
    pub has_limit: bool,
    pub classes: Vec<&'static str>,
}

// ASCII only: SQLite's UPPER/LOWER do not map non-ASCII letters, the IR does (engine gap, not a library defect)
pub const TEXT_POOL: [&str; 10] = ["a", "b", "c", "ab", "B", "z", "x y", "o'k", "10", "Zz"];
const ALIASES: [&str; 8] = ["p", "q", "r", "s", "m", "n", "a", "x"];

fn q(s: &str) -> String {
    // simple lower-case identifiers are left bare, others are double-quoted
    if !s.is_empty() && s.chars().all(|c| c.is_ascii_lowercase() || c.is_ascii_digit() || c == '_') && !s.chars().next().unwrap().is_ascii_digit() && !is_reserved(s) {
        s.to_string()
    } else {
        format!("\"{}\"", s.replace('"', "\"\""))
    }
}

fn is_reserved(s: &str) -> bool {
    matches!(s, "select" | "from" | "where" | "group" | "order" | "by" | "table" | "user" | "as" | "on" | "join" | "left" | "right" | "full" | "inner" | "natural" | "using" | "and" | "or" | "not" | "in" | "is" | "null" | "case" | "when" | "then" | "else" | "end" | "limit" | "offset" | "union" | "all" | "distinct" | "key" | "values" | "with")
}

fn sql_str(s: &str) -> String {
    format!("'{}'", s.replace('\'', "''"))
}

pub struct Renderer<'a> {
    pub db: &'a DbSpec,
    pub ctes: Vec<(String, Scope)>,
    pub classes: Vec<&'static str>,
    alias_n: usize,
}

fn table_scope(db: &DbSpec, ti: usize, qual: &str) -> Scope {
    let t = &db.tables[ti % db.tables.len()];
    t.cols
        .iter()
        .map(|c| VisCol {
            qual: qual.to_string(),
            name: c.name.clone(),
            kind: match &c.ty {
                ColTy::Int(..) | ColTy::IntSet(_) => Kind::Int,
                ColTy::Float(..) => Kind::Float,
                ColTy::TextSet(_) => Kind::Text,
                ColTy::Date(..) => Kind::Date,
            },
            nullable: c.nullable,
            range: match &c.ty {
                ColTy::Int(a, b) => Some((*a as f64, *b as f64)),
                ColTy::IntSet(v) => Some((*v.iter().min().unwrap_or(&0) as f64, *v.iter().max().unwrap_or(&0) as f64)),
                ColTy::Float(a, b) => Some((*a, *b)),
                _ => None,
            },
            texts: match &c.ty {
                ColTy::TextSet(v) => v.clone(),
                _ => vec![],
            },
            unique: c.effective_unique(t.nrows as usize),
        })
        .collect()
}

fn pick<'s>(scope: &'s Scope, i: u16, pred: impl Fn(&VisCol) -> bool) -> Option<&'s VisCol> {
    let c: Vec<&VisCol> = scope.iter().filter(|c| pred(c)).collect();
    if c.is_empty() {
        None
    } else {
        Some(c[(i as usize * c.len()) >> 16])
    }
}

fn col_ref(scope: &Scope, c: &VisCol) -> String {
    // qualify when the bare name is ambiguous in the scope
    let n = scope.iter().filter(|x| x.name == c.name).count();
    if n > 1 && !c.qual.is_empty() {
        format!("{}.{}", q(&c.qual), q(&c.name))
    } else {
        q(&c.name)
    }
}

const CMP: [&str; 6] = ["=", "<>", "<", "<=", ">", ">="];

impl<'a> Renderer<'a> {
    pub fn new(db: &'a DbSpec) -> Self {
        Renderer { db, ctes: vec![], classes: vec![], alias_n: 0 }
    }
    fn class(&mut self, c: &'static str) {
        if !self.classes.contains(&c) {
            self.classes.push(c);
        }
    }
    fn fresh_alias(&mut self) -> String {
        self.alias_n += 1;
        format!("s{}", self.alias_n)
    }

    pub fn num(&mut self, e: &NumE, sc: &Scope) -> (String, Kind) {
        match e {
            NumE::Col(i) => match pick(sc, *i, |c| c.kind.numeric()) {
                Some(c) => (col_ref(sc, c), c.kind),
                None => ("1".into(), Kind::Int),
            },
            NumE::Int(i) => (format!("{}", i), Kind::Int),
            NumE::Quarter(i) => (format!("{:?}", *i as f64 / 4.0), Kind::Float),
            NumE::Near(i, d) => match pick(sc, *i, |c| c.kind.numeric() && c.range.is_some()) {
                Some(c) => {
                    let (lo, hi) = c.range.unwrap();
                    let mid = ((lo + hi) / 2.0).round();
                    let v = match d.rem_euclid(5) {
                        0 => lo,
                        1 => hi,
                        2 => mid,
                        3 => lo - 1.0,
                        _ => hi + 1.0,
                    };
                    if c.kind == Kind::Int || v.fract() == 0.0 && v.abs() < 1e15 {
                        (format!("{}", v as i64), Kind::Int)
                    } else {
                        (format!("{v:?}"), Kind::Float)
                    }
                }
                None => ("0".into(), Kind::Int),
            },
            NumE::Add(a, b) | NumE::Sub(a, b) => {
                let (x, kx) = self.num(a, sc);
                let (y, ky) = self.num(b, sc);
                let op = if matches!(e, NumE::Add(..)) { "+" } else { "-" };
                (format!("({x} {op} {y})"), if kx == Kind::Float || ky == Kind::Float { Kind::Float } else { Kind::Int })
            }
            NumE::MulLit(a, l) => {
                let (x, k) = self.num(a, sc);
                (format!("({x} * {})", l.clamp(&-3, &3)), k)
            }
            NumE::DivLit(a, l) => {
                self.class("division");
                let (x, k) = self.num(a, sc);
                let l = if *l == 0 { 2 } else { *l };
                // float division only: integer division semantics differ between engines and the IR
                (format!("(CAST({x} AS FLOAT) / {})", l.clamp(-4, 4).max(if l < 0 { -4 } else { 1 })), {
                    let _ = k;
                    Kind::Float
                })
            }
            NumE::ModLit(a, m) => {
                let (x, k) = self.num(a, sc);
                if k == Kind::Int {
                    self.class("modulo");
                    (format!("({x} % {})", (*m % 5) + 2), Kind::Int)
                } else {
                    (x, k)
                }
            }
            NumE::Neg(a) => {
                let (x, k) = self.num(a, sc);
                (format!("(- {x})"), k)
            }
            NumE::Abs(a) => {
                let (x, k) = self.num(a, sc);
                (format!("ABS({x})"), k)
            }
            NumE::Len(t) => {
                self.class("string_function");
                let x = self.txt(t, sc);
                (format!("CHAR_LENGTH({x})"), Kind::Int)
            }
            NumE::Case(p, a, b) => {
                self.class("case");
                let p = self.pr(p, sc);
                let (x, kx) = self.num(a, sc);
                let (y, ky) = self.num(b, sc);
                (format!("CASE WHEN {p} THEN {x} ELSE {y} END"), if kx == Kind::Float || ky == Kind::Float { Kind::Float } else { Kind::Int })
            }
            NumE::Coalesce(a, b) => {
                self.class("coalesce");
                let (x, kx) = self.num(a, sc);
                let (y, ky) = self.num(b, sc);
                (format!("COALESCE({x}, {y})"), if kx == Kind::Float || ky == Kind::Float { Kind::Float } else { Kind::Int })
            }
            NumE::CastFloat(a) => {
                self.class("cast");
                let (x, _) = self.num(a, sc);
                (format!("CAST({x} AS FLOAT)"), Kind::Float)
            }
        }
    }

    pub fn txt(&mut self, e: &TxtE, sc: &Scope) -> String {
        match e {
            TxtE::Col(i) => match pick(sc, *i, |c| c.kind == Kind::Text) {
                Some(c) => col_ref(sc, c),
                None => "'a'".into(),
            },
            TxtE::Lit(i) => sql_str(TEXT_POOL[*i as usize % TEXT_POOL.len()]),
            TxtE::Upper(a) => {
                self.class("string_function");
                format!("UPPER({})", self.txt(a, sc))
            }
            TxtE::Lower(a) => {
                self.class("string_function");
                format!("LOWER({})", self.txt(a, sc))
            }
            TxtE::Concat(a, b) => {
                self.class("string_function");
                format!("({} || {})", self.txt(a, sc), self.txt(b, sc))
            }
            TxtE::ConcatN(args) => {
                self.class("string_function");
                self.class("concat_function");
                format!("CONCAT({})", args.iter().map(|a| self.txt(a, sc)).collect::<Vec<_>>().join(", "))
            }
            TxtE::Case(p, a, b) => {
                self.class("case");
                format!("CASE WHEN {} THEN {} ELSE {} END", self.pr(p, sc), self.txt(a, sc), self.txt(b, sc))
            }
            TxtE::Coalesce(a, b) => {
                self.class("coalesce");
                format!("COALESCE({}, {})", self.txt(a, sc), self.txt(b, sc))
            }
        }
    }

    pub fn pr(&mut self, p: &Pr, sc: &Scope) -> String {
        match p {
            Pr::CmpN(o, a, b) => format!("({} {} {})", self.num(a, sc).0, CMP[*o as usize % 6], self.num(b, sc).0),
            Pr::CmpT(o, a, b) => format!("({} {} {})", self.txt(a, sc), CMP[*o as usize % 6], self.txt(b, sc)),
            Pr::IsNullAny(i, not) => match pick(sc, *i, |_| true) {
                Some(c) => {
                    self.class("is_null");
                    format!("({} IS {}NULL)", col_ref(sc, c), if *not { "NOT " } else { "" })
                }
                None => "(1 = 1)".into(),
            },
            Pr::InN(a, l) => {
                self.class("in_list");
                let x = self.num(a, sc).0;
                let items: Vec<String> = l.iter().take(4).map(|e| match e {
                    NumE::Int(_) | NumE::Quarter(_) | NumE::Near(..) => self.num(e, sc).0,
                    _ => "0".to_string(),
                }).collect();
                format!("({x} IN ({}))", if items.is_empty() { "0".to_string() } else { items.join(", ") })
            }
            Pr::InT(a, l) => {
                self.class("in_list");
                let x = self.txt(a, sc);
                let items: Vec<String> = l.iter().take(4).map(|i| sql_str(TEXT_POOL[*i as usize % TEXT_POOL.len()])).collect();
                format!("({x} IN ({}))", if items.is_empty() { "'a'".to_string() } else { items.join(", ") })
            }
            Pr::Between(a, lo, hi) => {
                let x = self.num(a, sc).0;
                format!("(({x} >= {}) AND ({x} <= {}))", self.num(lo, sc).0, self.num(hi, sc).0)
            }
            Pr::And(a, b) => format!("({} AND {})", self.pr(a, sc), self.pr(b, sc)),
            Pr::Or(a, b) => format!("({} OR {})", self.pr(a, sc), self.pr(b, sc)),
            Pr::Not(a) => format!("(NOT {})", self.pr(a, sc)),
        }
    }

    fn agg(&mut self, a: &AggE, sc: &Scope) -> (String, Kind) {
        let (x, k) = self.num(&a.arg, sc);
        let d = if a.distinct {
            self.class("distinct_aggregate");
            "DISTINCT "
        } else {
            ""
        };
        match a.k {
            AggK::CountStar => ("COUNT(*)".into(), Kind::Int),
            AggK::Count => (format!("COUNT({d}{x})"), Kind::Int),
            AggK::Sum => (format!("SUM({d}{x})"), k),
            AggK::Avg => (format!("AVG({d}{x})"), Kind::Float),
            AggK::Min => (format!("MIN({x})"), k),
            AggK::Max => (format!("MAX({x})"), k),
            AggK::Stddev => {
                self.class("stddev_variance");
                (format!("STDDEV({x})"), Kind::Float)
            }
            AggK::Variance => {
                self.class("stddev_variance");
                (format!("VARIANCE({x})"), Kind::Float)
            }
        }
    }

    fn agg_item(&mut self, a: &AggItem, sc: &Scope) -> (String, Kind) {
        match a {
            AggItem::A(a) => self.agg(a, sc),
            AggItem::ALit(o, a, l) => {
                self.class("aggregate_expression");
                let (x, k) = self.agg(a, sc);
                (format!("({x} {} {})", ["+", "-", "*"][*o as usize % 3], l.clamp(&-3, &3)), k)
            }
            AggItem::AA(o, a, b) => {
                self.class("aggregate_expression");
                let (x, kx) = self.agg(a, sc);
                let (y, ky) = self.agg(b, sc);
                (format!("({x} {} {y})", ["+", "-"][*o as usize % 2]), if kx == Kind::Float || ky == Kind::Float { Kind::Float } else { Kind::Int })
            }
        }
    }

    /// returns (sql, scope of the FROM)
    pub fn from(&mut self, f: &Fr) -> (String, Scope) {
        match f {
            Fr::T(ti, aliased) => {
                let t = &self.db.tables[*ti as usize % self.db.tables.len()];
                // a CTE in scope that carries the table's name shadows the table
                if let Some((name, sc)) = self.ctes.iter().find(|(n, _)| n == &t.name).cloned() {
                    self.class("cte_shadows_table");
                    if *aliased {
                        let al = self.fresh_alias();
                        return (format!("{} AS {}", q(&name), q(&al)), sc.into_iter().map(|mut c| { c.qual = al.clone(); c }).collect());
                    }
                    return (q(&name), sc.into_iter().map(|mut c| { c.qual = name.clone(); c }).collect());
                }
                if *aliased {
                    self.class("table_alias");
                    let al = self.fresh_alias();
                    (format!("{} AS {}", q(&t.name), q(&al)), table_scope(self.db, *ti as usize, &al))
                } else {
                    (q(&t.name), table_scope(self.db, *ti as usize, &t.name))
                }
            }
            Fr::Cte(i) => {
                if self.ctes.is_empty() {
                    return self.from(&Fr::T(*i, false));
                }
                self.class("cte_reference");
                let (name, sc) = self.ctes[*i as usize % self.ctes.len()].clone();
                (q(&name), sc.into_iter().map(|mut c| { c.qual = name.clone(); c }).collect())
            }
            Fr::Sub(sel) => {
                self.class("derived_table");
                let (sql, info) = self.sel(sel, false);
                let al = self.fresh_alias();
                let sc: Scope = info
                    .out
                    .iter()
                    .filter_map(|(n, k)| n.clone().map(|n| VisCol { qual: al.clone(), name: n, kind: *k, nullable: true, range: None, texts: vec![], unique: false }))
                    .collect();
                if sc.is_empty() {
                    return self.from(&Fr::T(0, false));
                }
                (format!("({sql}) AS {}", q(&al)), sc)
            }
            Fr::SubW(ctes, sel) => {
                self.class("nested_with");
                let saved = self.ctes.clone();
                let mut parts = vec![];
                for (k, c) in ctes.iter().take(2).enumerate() {
                    let name = format!("c{k}");
                    // an inner CTE whose body reads the outer CTE of the same name is excluded by construction
                    // (known finding C08-F6): hide that outer CTE while the body is rendered
                    let hidden: Vec<(String, Scope)> = self.ctes.iter().filter(|(n, _)| n == &name).cloned().collect();
                    self.ctes.retain(|(n, _)| n != &name);
                    let (sql, info) = self.sel(c, false);
                    self.ctes.extend(hidden);
                    let sc: Scope = info
                        .out
                        .iter()
                        .filter_map(|(n, kd)| n.clone().map(|n| VisCol { qual: name.clone(), name: n, kind: *kd, nullable: true, range: None, texts: vec![], unique: false }))
                        .collect();
                    if sc.is_empty() {
                        continue;
                    }
                    parts.push(format!("{} AS ({sql})", q(&name)));
                    // shadow an outer CTE of the same name
                    self.ctes.retain(|(n, _)| n != &name);
                    self.ctes.insert(k.min(self.ctes.len()), (name, sc));
                }
                let mut inner = (**sel).clone();
                if let Fr::T(i, _) = inner.from {
                    inner.from = Fr::Cte(i % 2);
                }
                let (sql, info) = self.sel(&inner, false);
                self.ctes = saved;
                let al = self.fresh_alias();
                let sc: Scope = info
                    .out
                    .iter()
                    .filter_map(|(n, k)| n.clone().map(|n| VisCol { qual: al.clone(), name: n, kind: *k, nullable: true, range: None, texts: vec![], unique: false }))
                    .collect();
                if sc.is_empty() || parts.is_empty() {
                    return self.from(&Fr::T(0, false));
                }
                (format!("(WITH {} {sql}) AS {}", parts.join(", "), q(&al)), sc)
            }
            Fr::J(l, ti, jk, jc) => {
                let (lsql, lsc) = self.from(l);
                // the right side is always aliased when its name already occurs on the left
                let t = &self.db.tables[*ti as usize % self.db.tables.len()];
                let need_alias = lsc.iter().any(|c| c.qual == t.name);
                let (rsql, rsc) = if need_alias {
                    let al = self.fresh_alias();
                    (format!("{} AS {}", q(&t.name), q(&al)), table_scope(self.db, *ti as usize, &al))
                } else {
                    (q(&t.name), table_scope(self.db, *ti as usize, &t.name))
                };
                if lsc.is_empty() || rsc.is_empty() {
                    return (lsql, lsc);
                }
                let kw = match jk {
                    Jk::Inner => {
                        self.class("join_inner");
                        "JOIN"
                    }
                    Jk::Left => {
                        self.class("join_left");
                        "LEFT JOIN"
                    }
                    Jk::Right => {
                        self.class("join_right");
                        "RIGHT JOIN"
                    }
                    Jk::Full => {
                        self.class("join_full");
                        "FULL JOIN"
                    }
                    Jk::Cross => {
                        self.class("join_cross");
                        "CROSS JOIN"
                    }
                };
                let common: Vec<String> = {
                    let mut c = vec![];
                    for x in &lsc {
                        if rsc.iter().any(|y| y.name == x.name && y.kind == x.kind) && !c.contains(&x.name) && lsc.iter().filter(|z| z.name == x.name).count() == 1 {
                            c.push(x.name.clone());
                        }
                    }
                    c
                };
                let mut scope: Scope = lsc.clone();
                let cond = if *jk == Jk::Cross {
                    scope.extend(rsc.clone());
                    String::new()
                } else {
                    match jc {
                        Jc::Using if !common.is_empty() => {
                            self.class("join_using");
                            let k = &common[0];
                            // the joined column appears once, unqualified
                            for c in scope.iter_mut() {
                                if &c.name == k {
                                    c.qual = String::new();
                                    c.nullable = true;
                                }
                            }
                            scope.extend(rsc.iter().filter(|c| &c.name != k).cloned());
                            format!(" USING ({})", q(k))
                        }
                        Jc::Natural if !common.is_empty() => {
                            self.class("join_natural");
                            for c in scope.iter_mut() {
                                if common.contains(&c.name) {
                                    c.qual = String::new();
                                    c.nullable = true;
                                }
                            }
                            scope.extend(rsc.iter().filter(|c| !common.contains(&c.name)).cloned());
                            let kw2 = kw.replace("JOIN", "").trim().to_string();
                            return (format!("{lsql} NATURAL {}{}JOIN {rsql}", kw2, if kw2.is_empty() { "" } else { " " }), scope);
                        }
                        Jc::OnOr(l1, r1, l2, r2) => {
                            self.class("join_on_or");
                            let mut parts = vec![];
                            // prefer two different unique columns of the left side (each disjunct then looks like a key join)
                            let uniq: Vec<&VisCol> = lsc.iter().filter(|c| c.unique && !c.qual.is_empty()).collect();
                            for (n, (li, ri)) in [(*l1, *r1), (*l2, *r2)].into_iter().enumerate() {
                                let lc = if uniq.len() >= 2 { Some(uniq[(n + (li as usize % 2)) % uniq.len()].clone()) } else { pick(&lsc, li, |c| !c.qual.is_empty()).cloned() };
                                if let Some(lc) = lc {
                                    if let Some(rc) = pick(&rsc, ri, |c| c.kind == lc.kind || (c.kind.numeric() && lc.kind.numeric())) {
                                        parts.push(format!("{}.{} = {}.{}", q(&lc.qual), q(&lc.name), q(&rc.qual), q(&rc.name)));
                                    }
                                }
                            }
                            scope.extend(rsc.clone());
                            if parts.is_empty() {
                                " ON 1 = 1".to_string()
                            } else {
                                format!(" ON ({})", parts.join(" OR "))
                            }
                        }
                        other => {
                            let (li, ri, extra) = match other {
                                Jc::On(a, b, e) => (*a, *b, e.clone()),
                                _ => (0, 0, None),
                            };
                            // join on two columns of the same kind when possible
                            let lc = pick(&lsc, li, |_| true).unwrap().clone();
                            let rc = pick(&rsc, ri, |c| c.kind == lc.kind || (c.kind.numeric() && lc.kind.numeric())).cloned();
                            scope.extend(rsc.clone());
                            let base = match rc {
                                Some(rc) => format!("{}.{} = {}.{}", q(&lc.qual), q(&lc.name), q(&rc.qual), q(&rc.name)),
                                None => "1 = 1".to_string(),
                            };
                            let base = if lc.qual.is_empty() { "1 = 1".to_string() } else { base };
                            match extra {
                                Some((o, c, d)) if pick(&scope, c, |x| x.kind.numeric() && x.range.is_some()).is_some() => {
                                    self.class("join_on_extra_predicate");
                                    let ps = self.pr(&Pr::CmpN(o, NumE::Col(c), NumE::Near(c, d)), &scope);
                                    format!(" ON ({base} AND {ps})")
                                }
                                Some(_) => format!(" ON {base}"),
                                None => format!(" ON {base}"),
                            }
                        }
                    }
                };
                if matches!(jk, Jk::Left | Jk::Full) {
                    for c in scope.iter_mut().skip(lsc.len()) {
                        c.nullable = true;
                    }
                }
                if matches!(jk, Jk::Right | Jk::Full) {
                    for c in scope.iter_mut().take(lsc.len()) {
                        c.nullable = true;
                    }
                }
                (format!("{lsql} {kw} {rsql}{cond}"), scope)
            }
        }
    }

    /// returns (sql, info); `top` = top-level (ORDER BY / LIMIT allowed to matter)
    pub fn sel(&mut self, s: &Sel, top: bool) -> (String, Info) {
        let (fsql, sc) = self.from(&s.from);
        let mut info = Info::default();
        let mut items: Vec<String> = vec![];
        let mut group_sql: Vec<String> = vec![];
        let mut having_sql = String::new();
        let mut used_alias: Vec<String> = vec![];
        let mut alias_for = |pref: Option<u8>, k: usize, used: &mut Vec<String>| -> String {
            let base = match pref {
                Some(a) => ALIASES[a as usize % ALIASES.len()].to_string(),
                None => format!("e{k}"),
            };
            let mut name = base.clone();
            let mut n = 1;
            while used.contains(&name) {
                n += 1;
                name = format!("{base}{n}");
            }
            used.push(name.clone());
            name
        };
        match &s.body {
            Body::Star => {
                self.class("select_star");
                items.push("*".into());
                for c in &sc {
                    info.out.push((Some(c.name.clone()), c.kind));
                }
            }
            Body::Plain(its) => {
                for (k, it) in its.iter().take(5).enumerate() {
                    match &it.e {
                        ItemE::AnyCol(i) => match pick(&sc, *i, |_| true) {
                            Some(c) => match it.alias {
                                Some(a) => {
                                    let al = alias_for(Some(a), k, &mut used_alias);
                                    items.push(format!("{} AS {}", col_ref(&sc, c), q(&al)));
                                    info.out.push((Some(al), c.kind));
                                }
                                None => {
                                    if used_alias.contains(&c.name) {
                                        let al = alias_for(None, k, &mut used_alias);
                                        items.push(format!("{} AS {}", col_ref(&sc, c), q(&al)));
                                        info.out.push((Some(al), c.kind));
                                    } else {
                                        used_alias.push(c.name.clone());
                                        items.push(col_ref(&sc, c));
                                        info.out.push((Some(c.name.clone()), c.kind));
                                    }
                                }
                            },
                            None => {
                                let al = alias_for(None, k, &mut used_alias);
                                items.push(format!("1 AS {}", q(&al)));
                                info.out.push((Some(al), Kind::Int));
                            }
                        },
                        ItemE::Num(e) => {
                            let (x, kd) = self.num(e, &sc);
                            let al = alias_for(it.alias, k, &mut used_alias);
                            items.push(format!("{x} AS {}", q(&al)));
                            info.out.push((Some(al), kd));
                        }
                        ItemE::Txt(e) => {
                            let x = self.txt(e, &sc);
                            let al = alias_for(it.alias, k, &mut used_alias);
                            items.push(format!("{x} AS {}", q(&al)));
                            info.out.push((Some(al), Kind::Text));
                        }
                    }
                }
                if items.is_empty() {
                    items.push("1 AS e0".into());
                    info.out.push((Some("e0".into()), Kind::Int));
                }
            }
            Body::Grouped { keys, project_keys, aggs, having } => {
                self.class("group_by");
                for (k, key) in keys.iter().take(3).enumerate() {
                    let project = project_keys.get(k).copied().unwrap_or(true);
                    match key {
                        Key::Col(i) => match pick(&sc, *i, |_| true) {
                            Some(c) => {
                                let r = col_ref(&sc, c);
                                if !group_sql.contains(&r) {
                                    group_sql.push(r.clone());
                                    if project && !used_alias.contains(&c.name) {
                                        used_alias.push(c.name.clone());
                                        items.push(r);
                                        info.out.push((Some(c.name.clone()), c.kind));
                                    }
                                }
                            }
                            None => {}
                        },
                        Key::Expr(e, by_alias, pref) => {
                            self.class("group_by_expression");
                            let (x, kd) = self.num(e, &sc);
                            let al = alias_for(*pref, 10 + k, &mut used_alias);
                            if sc.iter().any(|c| c.name == al) {
                                self.class("alias_shadows_column");
                            }
                            if *by_alias {
                                self.class("group_by_alias");
                                items.push(format!("{x} AS {}", q(&al)));
                                info.out.push((Some(al.clone()), kd));
                                group_sql.push(q(&al));
                            } else {
                                if project {
                                    items.push(format!("{x} AS {}", q(&al)));
                                    info.out.push((Some(al), kd));
                                }
                                group_sql.push(x);
                            }
                        }
                    }
                }
                if group_sql.len() >= 2 {
                    self.class("group_by_multiple_keys");
                }
                for (k, a) in aggs.iter().take(4).enumerate() {
                    let (x, kd) = self.agg_item(a, &sc);
                    let al = alias_for(None, 20 + k, &mut used_alias);
                    items.push(format!("{x} AS {}", q(&al)));
                    info.out.push((Some(al), kd));
                }
                if items.is_empty() {
                    items.push("COUNT(*) AS e20".into());
                    info.out.push((Some("e20".into()), Kind::Int));
                }
                if group_sql.is_empty() {
                    // no usable key: degrade to a global aggregate
                } else if let Some((o, a, l)) = having {
                    self.class("having");
                    let (x, _) = self.agg(a, &sc);
                    having_sql = format!(" HAVING {x} {} {}", CMP[*o as usize % 6], l);
                }
            }
            Body::Global(aggs) => {
                self.class("global_aggregate");
                for (k, a) in aggs.iter().take(4).enumerate() {
                    let (x, kd) = self.agg_item(a, &sc);
                    let al = alias_for(None, 20 + k, &mut used_alias);
                    items.push(format!("{x} AS {}", q(&al)));
                    info.out.push((Some(al), kd));
                }
                if items.is_empty() {
                    items.push("COUNT(*) AS e20".into());
                    info.out.push((Some("e20".into()), Kind::Int));
                }
            }
        }
        let mut sql = String::from("SELECT ");
        if s.distinct && matches!(s.body, Body::Plain(_) | Body::Star) {
            self.class("distinct");
            sql.push_str("DISTINCT ");
        }
        sql.push_str(&items.join(", "));
        sql.push_str(" FROM ");
        sql.push_str(&fsql);
        if !group_sql.is_empty() && matches!(&s.body, Body::Grouped { aggs, .. } if aggs.is_empty()) {
            self.class("group_by_without_aggregate");
        }
        if matches!(s.body, Body::Star) && matches!(s.from, Fr::J(..)) {
            self.class("star_over_join");
        }
        if let Some(w) = &s.where_ {
            self.class("where");
            let p = self.pr(w, &sc);
            sql.push_str(&format!(" WHERE {p}"));
        }
        if !group_sql.is_empty() {
            sql.push_str(&format!(" GROUP BY {}", group_sql.join(", ")));
            sql.push_str(&having_sql);
        }
        if top {
            let mut ob = vec![];
            for (i, desc) in s.order.iter().take(2) {
                let named: Vec<(usize, &String)> = info.out.iter().enumerate().filter_map(|(k, (n, _))| n.as_ref().map(|n| (k, n))).collect();
                if named.is_empty() || matches!(s.body, Body::Star) {
                    break;
                }
                let (k, n) = named[(*i as usize) % named.len()];
                if ob.iter().any(|(kk, _): &(usize, bool)| *kk == k) {
                    continue;
                }
                ob.push((k, *desc));
                let _ = n;
            }
            if !ob.is_empty() {
                self.class("order_by");
                let parts: Vec<String> = ob.iter().map(|(k, d)| format!("{}{}", q(info.out[*k].0.as_ref().unwrap()), if *d { " DESC" } else { "" })).collect();
                sql.push_str(&format!(" ORDER BY {}", parts.join(", ")));
                info.order = ob;
            }
            if let Some(l) = s.limit {
                self.class("limit");
                sql.push_str(&format!(" LIMIT {}", l % 8));
                info.has_limit = true;
                if let Some(o) = s.offset {
                    self.class("offset");
                    sql.push_str(&format!(" OFFSET {}", o % 5));
                }
            } else if let (Some(o), true) = (s.offset, s.order.len() == 1 && !info.order.is_empty()) {
                // OFFSET without LIMIT (only under an ORDER BY, one time in three)
                if o % 3 == 0 {
                    self.class("offset_without_limit");
                    sql.push_str(&format!(" OFFSET {}", (o / 3) % 3));
                    info.has_limit = true;
                }
            }
        }
        (sql, info)
    }

    pub fn query(&mut self, qy: &Q) -> (String, Info) {
        match qy {
            Q::S(s) => self.sel(s, true),
            Q::Set(a, op, all, b) => {
                self.class("set_operation");
                // both sides: plain numeric selects of the same arity
                let n = match (&a.body, &b.body) {
                    (Body::Plain(x), Body::Plain(y)) => x.len().min(y.len()).clamp(1, 3),
                    _ => 1,
                };
                let side = |s: &Sel| -> Sel {
                    let mut s = s.clone();
                    let its: Vec<Item> = match &s.body {
                        Body::Plain(x) => x.iter().filter(|i| matches!(i.e, ItemE::Num(_))).cloned().collect(),
                        _ => vec![],
                    };
                    let mut its: Vec<Item> = its.into_iter().take(n).collect();
                    while its.len() < n {
                        its.push(Item { e: ItemE::Num(NumE::Col(its.len() as u16 * 20000)), alias: None });
                    }
                    s.body = Body::Plain(its);
                    s.order = vec![];
                    s.limit = None;
                    s.distinct = false;
                    s
                };
                let (l, li) = self.sel(&side(a), false);
                let (r, ri) = self.sel(&side(b), false);
                if li.out.iter().zip(ri.out.iter()).any(|(x, y)| x.0 != y.0) {
                    self.class("set_operation_names_differ");
                }
                let kw = ["UNION", "INTERSECT", "EXCEPT"][*op as usize % 3];
                // INTERSECT ALL / EXCEPT ALL are not available on the execution engine
                let all = if *all && *op % 3 == 0 {
                    self.class("union_all");
                    " ALL"
                } else {
                    ""
                };
                let mut info = li;
                info.order = vec![];
                info.has_limit = false;
                (format!("{l} {kw}{all} {r}"), info)
            }
            Q::With(ctes, inner) => {
                self.class("cte");
                let mut parts = vec![];
                let saved = self.ctes.clone();
                for (k, c) in ctes.iter().take(2).enumerate() {
                    let (sql, info) = self.sel(c, false);
                    // one CTE in four takes the name of a base table (which it then shadows for the rest of the query)
                    let mut name = format!("c{k}");
                    if (sql.len() + k) % 4 == 0 && !self.db.tables.is_empty() {
                        let cand = self.db.tables[sql.len() % self.db.tables.len()].name.clone();
                        if !self.ctes.iter().any(|(n, _)| *n == cand) {
                            // does the body read its namesake?
                            let mentions = |text: &str| text.split(|c: char| !(c.is_ascii_alphanumeric() || c == '_')).any(|tok| tok == cand);
                            let reads_it = mentions(&sql);
                            // an earlier CTE of the same WITH that reads the base table of that name
                            let earlier_reads_it = parts.iter().any(|p: &String| mentions(p));
                            name = cand;
                            self.class(if reads_it {
                                "cte_named_like_table"
                            } else if earlier_reads_it {
                                "cte_named_like_table_read_earlier"
                            } else {
                                "cte_named_like_other_table"
                            });
                        }
                    }
                    let sc: Scope = info
                        .out
                        .iter()
                        .filter_map(|(n, kd)| n.clone().map(|n| VisCol { qual: name.clone(), name: n, kind: *kd, nullable: true, range: None, texts: vec![], unique: false }))
                        .collect();
                    if sc.is_empty() {
                        continue;
                    }
                    parts.push(format!("{} AS ({sql})", q(&name)));
                    self.ctes.push((name, sc));
                }
                let (isql, info) = self.query(inner);
                self.ctes = saved;
                if parts.is_empty() {
                    (isql, info)
                } else {
                    (format!("WITH {} {isql}", parts.join(", ")), info)
                }
            }
        }
    }
}

pub fn render(db: &DbSpec, qy: &Q) -> (String, Info) {
    let mut r = Renderer::new(db);
    let (sql, mut info) = r.query(qy);
    info.classes = r.classes;
    (sql, info)
}

// ---------------------------------------------------------------------------------------------
// strategies

pub fn num_strategy(depth: u32) -> BoxedStrategy<NumE> {
    let leaf = prop_oneof![
        50 => any::<u16>().prop_map(NumE::Col),
        15 => (-5i8..10).prop_map(NumE::Int),
        10 => (-20i8..40).prop_map(NumE::Quarter),
        15 => (any::<u16>(), 0i8..5).prop_map(|(c, d)| NumE::Near(c, d)),
    ]
    .boxed();
    if depth == 0 {
        return leaf;
    }
    let sub = num_strategy(depth - 1);
    prop_oneof![
        40 => leaf,
        10 => (sub.clone(), sub.clone()).prop_map(|(a, b)| NumE::Add(Box::new(a), Box::new(b))),
        8 => (sub.clone(), sub.clone()).prop_map(|(a, b)| NumE::Sub(Box::new(a), Box::new(b))),
        6 => (sub.clone(), -3i8..=3).prop_map(|(a, l)| NumE::MulLit(Box::new(a), l)),
        4 => (sub.clone(), 1i8..=4).prop_map(|(a, l)| NumE::DivLit(Box::new(a), l)),
        4 => (sub.clone(), 0u8..5).prop_map(|(a, l)| NumE::ModLit(Box::new(a), l)),
        4 => sub.clone().prop_map(|a| NumE::Neg(Box::new(a))),
        5 => sub.clone().prop_map(|a| NumE::Abs(Box::new(a))),
        3 => txt_strategy(0).prop_map(|t| NumE::Len(Box::new(t))),
        6 => (pr_strategy(0), sub.clone(), sub.clone()).prop_map(|(p, a, b)| NumE::Case(Box::new(p), Box::new(a), Box::new(b))),
        5 => (sub.clone(), sub.clone()).prop_map(|(a, b)| NumE::Coalesce(Box::new(a), Box::new(b))),
        3 => sub.prop_map(|a| NumE::CastFloat(Box::new(a))),
    ]
    .boxed()
}

pub fn txt_strategy(depth: u32) -> BoxedStrategy<TxtE> {
    let leaf = prop_oneof![3 => any::<u16>().prop_map(TxtE::Col), 1 => (0u8..10).prop_map(TxtE::Lit)].boxed();
    if depth == 0 {
        return leaf;
    }
    let sub = txt_strategy(depth - 1);
    prop_oneof![
        5 => leaf,
        1 => sub.clone().prop_map(|a| TxtE::Upper(Box::new(a))),
        1 => sub.clone().prop_map(|a| TxtE::Lower(Box::new(a))),
        1 => (sub.clone(), sub.clone()).prop_map(|(a, b)| TxtE::Concat(Box::new(a), Box::new(b))),
        1 => proptest::collection::vec(sub.clone(), 2..5).prop_map(TxtE::ConcatN),
        1 => (sub.clone(), sub).prop_map(|(a, b)| TxtE::Coalesce(Box::new(a), Box::new(b))),
    ]
    .boxed()
}

pub fn pr_strategy(depth: u32) -> BoxedStrategy<Pr> {
    let atom = prop_oneof![
        45 => (0u8..6, num_strategy(0), num_strategy(0)).prop_map(|(o, a, b)| Pr::CmpN(o, a, b)),
        10 => (0u8..2, txt_strategy(0), txt_strategy(0)).prop_map(|(o, a, b)| Pr::CmpT(o, a, b)),
        10 => (any::<u16>(), any::<bool>()).prop_map(|(c, n)| Pr::IsNullAny(c, n)),
        12 => (num_strategy(0), proptest::collection::vec((any::<u16>(), 0i8..5).prop_map(|(c, d)| NumE::Near(c, d)), 1..4)).prop_map(|(a, l)| Pr::InN(a, l)),
        8 => (txt_strategy(0), proptest::collection::vec(0u8..10, 1..4)).prop_map(|(a, l)| Pr::InT(a, l)),
        5 => (any::<u16>(), 0i8..5, 0i8..5).prop_map(|(c, a, b)| Pr::Between(NumE::Col(c), NumE::Near(c, a), NumE::Near(c, b))),
    ]
    .boxed();
    if depth == 0 {
        return atom;
    }
    let sub = pr_strategy(depth - 1);
    prop_oneof![
        5 => atom,
        2 => (sub.clone(), sub.clone()).prop_map(|(a, b)| Pr::And(Box::new(a), Box::new(b))),
        2 => (sub.clone(), sub.clone()).prop_map(|(a, b)| Pr::Or(Box::new(a), Box::new(b))),
        1 => sub.prop_map(|a| Pr::Not(Box::new(a))),
    ]
    .boxed()
}

fn item_strategy() -> BoxedStrategy<Item> {
    (
        prop_oneof![
            40 => any::<u16>().prop_map(ItemE::AnyCol),
            45 => num_strategy(2).prop_map(ItemE::Num),
            15 => txt_strategy(1).prop_map(ItemE::Txt),
        ],
        proptest::option::weighted(0.5, 0u8..8),
    )
        .prop_map(|(e, alias)| Item { e, alias })
        .boxed()
}

fn agge_strategy() -> BoxedStrategy<AggE> {
    (
        prop_oneof![
            15 => Just(AggK::CountStar), 15 => Just(AggK::Count), 25 => Just(AggK::Sum), 15 => Just(AggK::Avg),
            10 => Just(AggK::Min), 10 => Just(AggK::Max), 5 => Just(AggK::Stddev), 5 => Just(AggK::Variance)
        ],
        prop::bool::weighted(0.15),
        num_strategy(1),
    )
        .prop_map(|(k, distinct, arg)| AggE { k, distinct, arg })
        .boxed()
}

fn aggitem_strategy() -> BoxedStrategy<AggItem> {
    prop_oneof![
        75 => agge_strategy().prop_map(AggItem::A),
        15 => (0u8..3, agge_strategy(), -3i8..=3).prop_map(|(o, a, l)| AggItem::ALit(o, a, l)),
        10 => (0u8..2, agge_strategy(), agge_strategy()).prop_map(|(o, a, b)| AggItem::AA(o, a, b)),
    ]
    .boxed()
}

fn body_strategy() -> BoxedStrategy<Body> {
    prop_oneof![
        8 => Just(Body::Star),
        42 => proptest::collection::vec(item_strategy(), 1..5).prop_map(Body::Plain),
        35 => (
            proptest::collection::vec(prop_oneof![4 => any::<u16>().prop_map(Key::Col), 1 => (num_strategy(1), any::<bool>(), proptest::option::weighted(0.4, 0u8..8)).prop_map(|(e, b, a)| Key::Expr(e, b, a))], 1..3),
            proptest::collection::vec(prop::bool::weighted(0.8), 3..=3),
            proptest::collection::vec(aggitem_strategy(), 0..4),
            proptest::option::weighted(0.2, (0u8..6, agge_strategy(), -2i8..6)),
        )
            .prop_map(|(keys, project_keys, aggs, having)| Body::Grouped { keys, project_keys, aggs, having }),
        15 => proptest::collection::vec(aggitem_strategy(), 1..4).prop_map(Body::Global),
    ]
    .boxed()
}

fn jk_strategy() -> BoxedStrategy<Jk> {
    prop_oneof![35 => Just(Jk::Inner), 25 => Just(Jk::Left), 12 => Just(Jk::Right), 12 => Just(Jk::Full), 16 => Just(Jk::Cross)].boxed()
}

fn from_strategy(depth: u32) -> BoxedStrategy<Fr> {
    let table = (0u8..20, prop::bool::weighted(0.25)).prop_map(|(t, a)| Fr::T(t, a)).boxed();
    if depth == 0 {
        return prop_oneof![9 => table, 1 => (0u8..2).prop_map(Fr::Cte)].boxed();
    }
    let sub = from_strategy(depth - 1);
    prop_oneof![
        50 => table,
        5 => (0u8..2).prop_map(Fr::Cte),
        35 => (
            sub,
            0u8..4,
            jk_strategy(),
            prop_oneof![6 => (any::<u16>(), any::<u16>(), proptest::option::weighted(0.2, (0u8..6, any::<u16>(), 0i8..5))).prop_map(|(a, b, e)| Jc::On(a, b, e)), 1 => (any::<u16>(), any::<u16>(), any::<u16>(), any::<u16>()).prop_map(|(a, b, c, d)| Jc::OnOr(a, b, c, d)), 2 => Just(Jc::Using), 1 => Just(Jc::Natural)]
        )
            .prop_map(|(l, t, k, c)| Fr::J(Box::new(l), t, k, c)),
        8 => sel_strategy(0).prop_map(|s| Fr::Sub(Box::new(s))),
        4 => (proptest::collection::vec(sel_strategy(0), 1..3), sel_strategy(0)).prop_map(|(c, s)| Fr::SubW(c, Box::new(s))),
    ]
    .boxed()
}

pub fn sel_strategy(depth: u32) -> BoxedStrategy<Sel> {
    (
        prop::bool::weighted(0.12),
        from_strategy(depth),
        body_strategy(),
        proptest::option::weighted(0.45, pr_strategy(1)),
        proptest::collection::vec((0u8..6, any::<bool>()), 0..3),
        proptest::option::weighted(0.15, 0u8..8),
        proptest::option::weighted(0.5, 0u8..5),
    )
        .prop_map(|(distinct, from, body, where_, order, limit, offset)| {
            let order = if order.len() == 1 || limit.is_some() { order } else { vec![] };
            Sel { distinct, from, body, where_, order, limit, offset }
        })
        .boxed()
}

pub fn query_strategy() -> BoxedStrategy<Q> {
    prop_oneof![
        70 => sel_strategy(2).prop_map(Q::S),
        12 => (sel_strategy(1), 0u8..3, any::<bool>(), sel_strategy(1)).prop_map(|(a, o, all, b)| Q::Set(Box::new(a), o, all, Box::new(b))),
        18 => (proptest::collection::vec(sel_strategy(1), 1..3), sel_strategy(1)).prop_map(|(c, s)| {
            // make the main query read from a CTE
            let mut s = s;
            if let Fr::T(i, _) = s.from {
                s.from = Fr::Cte(i % 2);
            }
            Q::With(c, Box::new(Q::S(s)))
        }),
    ]
    .boxed()
}
