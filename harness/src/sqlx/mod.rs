pub mod db;
pub mod exec;
pub mod query;
pub mod privacy;
