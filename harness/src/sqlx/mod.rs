pub mod db;
pub mod exec;
pub mod query;
