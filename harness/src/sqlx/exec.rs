//! SQLite execution backend with the compatibility layer (UDFs + VALUES alias patch) and result comparison.
use super::db::{Cell, DbSpec};
use rusqlite::functions::{Aggregate, Context, FunctionFlags};
use rusqlite::types::{Value as SV, ValueRef};
use rusqlite::Connection;
use std::sync::atomic::{AtomicU64, Ordering as AO};
use std::sync::{Arc, Mutex};

#[derive(Clone, Copy, Debug, PartialEq)]
pub enum RngMode {
    /// random() = 1.0: the Box-Muller term vanishes (noise off)
    Zero,
    /// 1 - i*1e-13 for the i-th call: distinct ranks, negligible noise
    NearOneDistinct,
    /// 1e-300: +37 sigma on every noised quantity
    AlwaysRelease,
    /// 0.5: -1.18 sigma
    NeverRelease,
    Const(f64),
}

pub struct Db {
    pub conn: Connection,
    rng: Arc<Mutex<RngMode>>,
    calls: Arc<AtomicU64>,
}

struct Moments {
    n: f64,
    mean: f64,
    m2: f64,
}

struct VarAgg {
    sqrt: bool,
    /// population (divide by n) instead of sample (n - 1)
    pop: bool,
}

impl Aggregate<Moments, Option<f64>> for VarAgg {
    fn init(&self, _: &mut Context<'_>) -> rusqlite::Result<Moments> {
        Ok(Moments { n: 0.0, mean: 0.0, m2: 0.0 })
    }
    fn step(&self, ctx: &mut Context<'_>, m: &mut Moments) -> rusqlite::Result<()> {
        let x: Option<f64> = match ctx.get_raw(0) {
            ValueRef::Null => None,
            ValueRef::Integer(i) => Some(i as f64),
            ValueRef::Real(f) => Some(f),
            _ => None,
        };
        if let Some(x) = x {
            m.n += 1.0;
            let d = x - m.mean;
            m.mean += d / m.n;
            m.m2 += d * (x - m.mean);
        }
        Ok(())
    }
    fn finalize(&self, _: &mut Context<'_>, m: Option<Moments>) -> rusqlite::Result<Option<f64>> {
        Ok(m.and_then(|m| {
            if self.pop {
                if m.n < 1.0 {
                    None
                } else {
                    let v = m.m2 / m.n;
                    Some(if self.sqrt { v.sqrt() } else { v })
                }
            } else if m.n < 2.0 {
                None
            } else {
                let v = m.m2 / (m.n - 1.0);
                Some(if self.sqrt { v.sqrt() } else { v })
            }
        }))
    }
}

fn num(v: ValueRef<'_>) -> Option<f64> {
    match v {
        ValueRef::Integer(i) => Some(i as f64),
        ValueRef::Real(f) => Some(f),
        _ => None,
    }
}

impl Db {
    pub fn new() -> rusqlite::Result<Db> {
        let conn = Connection::open_in_memory()?;
        let rng = Arc::new(Mutex::new(RngMode::Zero));
        let calls = Arc::new(AtomicU64::new(0));
        let det = FunctionFlags::SQLITE_UTF8 | FunctionFlags::SQLITE_DETERMINISTIC;
        {
            let (rng, calls) = (rng.clone(), calls.clone());
            conn.create_scalar_function("random", 0, FunctionFlags::SQLITE_UTF8, move |_| {
                let i = calls.fetch_add(1, AO::SeqCst);
                let mode = *rng.lock().unwrap();
                Ok(match mode {
                    RngMode::Zero => 1.0,
                    RngMode::NearOneDistinct => 1.0 - (i as f64 + 1.0) * 1e-13,
                    RngMode::AlwaysRelease => 1e-300,
                    RngMode::NeverRelease => 0.5,
                    RngMode::Const(u) => u,
                })
            })?;
        }
        // md5: only injectivity is relied on
        conn.create_scalar_function("md5", 1, det, |ctx| {
            Ok(match ctx.get_raw(0) {
                ValueRef::Null => SV::Null,
                ValueRef::Integer(i) => SV::Text(format!("h{i}")),
                ValueRef::Real(f) => SV::Text(format!("h{f:?}")),
                ValueRef::Text(t) => SV::Text(format!("h{}", String::from_utf8_lossy(t))),
                ValueRef::Blob(b) => SV::Text(format!("h{b:?}")),
            })
        })?;
        for (name, greatest) in [("greatest", true), ("least", false)] {
            conn.create_scalar_function(name, -1, det, move |ctx| {
                // PostgreSQL semantics: NULLs are skipped; numbers compared numerically, texts byte-wise
                let mut best: Option<SV> = None;
                for i in 0..ctx.len() {
                    let v: SV = ctx.get(i)?;
                    if matches!(v, SV::Null) {
                        continue;
                    }
                    best = Some(match best {
                        None => v,
                        Some(b) => {
                            let ord = cmp_sv(&v, &b);
                            if (greatest && ord == std::cmp::Ordering::Greater) || (!greatest && ord == std::cmp::Ordering::Less) {
                                v
                            } else {
                                b
                            }
                        }
                    });
                }
                Ok(best.unwrap_or(SV::Null))
            })?;
        }
        conn.create_scalar_function("char_length", 1, det, |ctx| {
            Ok(match ctx.get_raw(0) {
                ValueRef::Null => SV::Null,
                ValueRef::Text(t) => SV::Integer(String::from_utf8_lossy(t).chars().count() as i64),
                ValueRef::Integer(i) => SV::Integer(i.to_string().len() as i64),
                other => SV::Integer(format!("{other:?}").len() as i64),
            })
        })?;
        conn.create_scalar_function("concat", -1, det, |ctx| {
            let mut s = String::new();
            for i in 0..ctx.len() {
                match ctx.get_raw(i) {
                    ValueRef::Null => {}
                    ValueRef::Integer(x) => s.push_str(&x.to_string()),
                    ValueRef::Real(x) => s.push_str(&format!("{x}")),
                    ValueRef::Text(t) => s.push_str(&String::from_utf8_lossy(t)),
                    ValueRef::Blob(_) => {}
                }
            }
            Ok(s)
        })?;
        conn.create_scalar_function("sqrt_safe", 1, det, |ctx| Ok(num(ctx.get_raw(0)).map(|x| x.sqrt())))?;
        conn.create_aggregate_function("stddev", 1, det, VarAgg { sqrt: true, pop: false })?;
        conn.create_aggregate_function("stddev_samp", 1, det, VarAgg { sqrt: true, pop: false })?;
        conn.create_aggregate_function("std", 1, det, VarAgg { sqrt: true, pop: false })?;
        conn.create_aggregate_function("variance", 1, det, VarAgg { sqrt: false, pop: false })?;
        conn.create_aggregate_function("var_samp", 1, det, VarAgg { sqrt: false, pop: false })?;
        conn.create_aggregate_function("var", 1, det, VarAgg { sqrt: false, pop: false })?;
        conn.create_aggregate_function("var_pop", 1, det, VarAgg { sqrt: false, pop: true })?;
        conn.create_aggregate_function("stddev_pop", 1, det, VarAgg { sqrt: true, pop: true })?;
        Ok(Db { conn, rng, calls })
    }

    pub fn set_rng(&self, m: RngMode) {
        *self.rng.lock().unwrap() = m;
        self.calls.store(0, AO::SeqCst);
    }
    pub fn rng_calls(&self) -> u64 {
        self.calls.load(AO::SeqCst)
    }

    /// (re)create and fill every table of the spec; `rows` overrides the spec's own rows when given
    /// an untyped auxiliary table (materialised intermediate result)
    pub fn load_raw(&self, name: &str, cols: &[String], rows: &[Vec<Cell>]) -> rusqlite::Result<()> {
        self.conn.execute(&format!("DROP TABLE IF EXISTS {}", quote_ident(name)), [])?;
        let c: Vec<String> = cols.iter().map(|c| quote_ident(c)).collect();
        self.conn.execute(&format!("CREATE TABLE {} ({})", quote_ident(name), c.join(", ")), [])?;
        let ph: Vec<&str> = cols.iter().map(|_| "?").collect();
        let mut st = self.conn.prepare(&format!("INSERT INTO {} VALUES ({})", quote_ident(name), ph.join(", ")))?;
        for r in rows {
            let vals: Vec<SV> = r.iter().map(cell_to_sv).collect();
            st.execute(rusqlite::params_from_iter(vals.iter()))?;
        }
        Ok(())
    }

    pub fn load(&self, spec: &DbSpec, rows: Option<&Vec<Vec<Vec<Cell>>>>) -> rusqlite::Result<()> {
        let own;
        let rows = match rows {
            Some(r) => r,
            None => {
                own = spec.rows();
                &own
            }
        };
        for (t, trows) in spec.tables.iter().zip(rows.iter()) {
            self.conn.execute(&format!("DROP TABLE IF EXISTS {}", quote_ident(&t.name)), [])?;
            let cols: Vec<String> = t.cols.iter().map(|c| format!("{} {}", quote_ident(&c.name), c.ty.sqlite_type())).collect();
            self.conn.execute(&format!("CREATE TABLE {} ({})", quote_ident(&t.name), cols.join(", ")), [])?;
            if t.cols.is_empty() {
                continue;
            }
            let ph: Vec<&str> = t.cols.iter().map(|_| "?").collect();
            let mut st = self.conn.prepare(&format!("INSERT INTO {} VALUES ({})", quote_ident(&t.name), ph.join(", ")))?;
            for r in trows {
                let vals: Vec<SV> = r.iter().map(cell_to_sv).collect();
                st.execute(rusqlite::params_from_iter(vals.iter()))?;
            }
        }
        Ok(())
    }

    /// executes the text as given (no compatibility patches)
    pub fn query_raw(&self, sql: &str) -> Result<QueryResult, String> {
        self.query_text(sql.to_string())
    }

    pub fn query(&self, sql: &str) -> Result<QueryResult, String> {
        self.query_text(patch_bare_offset(&patch_values_alias(sql)))
    }

    fn query_text(&self, sql: String) -> Result<QueryResult, String> {
        let mut st = self.conn.prepare(&sql).map_err(|e| format!("{e}"))?;
        let names: Vec<String> = st.column_names().iter().map(|s| s.to_string()).collect();
        let n = names.len();
        let mut rows = vec![];
        let mut q = st.query([]).map_err(|e| format!("{e}"))?;
        loop {
            match q.next() {
                Ok(Some(r)) => {
                    let mut row = Vec::with_capacity(n);
                    for i in 0..n {
                        row.push(match r.get_ref(i).map_err(|e| format!("{e}"))? {
                            ValueRef::Null => Cell::Null,
                            ValueRef::Integer(i) => Cell::Int(i),
                            ValueRef::Real(f) => Cell::Real(f),
                            ValueRef::Text(t) => Cell::Text(String::from_utf8_lossy(t).to_string()),
                            ValueRef::Blob(b) => Cell::Blob(b.to_vec()),
                        });
                    }
                    rows.push(row);
                    if rows.len() > 20_000 {
                        return Err("too many rows".into());
                    }
                }
                Ok(None) => break,
                Err(e) => return Err(format!("{e}")),
            }
        }
        Ok(QueryResult { names, rows })
    }
}

#[derive(Clone, Debug)]
pub struct QueryResult {
    pub names: Vec<String>,
    pub rows: Vec<Vec<Cell>>,
}

fn cmp_sv(a: &SV, b: &SV) -> std::cmp::Ordering {
    use std::cmp::Ordering::*;
    let n = |v: &SV| match v {
        SV::Integer(i) => Some(*i as f64),
        SV::Real(f) => Some(*f),
        _ => None,
    };
    match (n(a), n(b)) {
        (Some(x), Some(y)) => x.partial_cmp(&y).unwrap_or(Equal),
        _ => match (a, b) {
            (SV::Text(x), SV::Text(y)) => x.as_bytes().cmp(y.as_bytes()),
            (SV::Text(_), _) => Greater,
            (_, SV::Text(_)) => Less,
            _ => Equal,
        },
    }
}

pub fn cell_to_sv(c: &Cell) -> SV {
    match c {
        Cell::Null => SV::Null,
        Cell::Int(i) => SV::Integer(*i),
        Cell::Real(f) => SV::Real(*f),
        Cell::Text(s) => SV::Text(s.clone()),
        Cell::Blob(b) => SV::Blob(b.clone()),
    }
}

pub fn quote_ident(s: &str) -> String {
    format!("\"{}\"", s.replace('"', "\"\""))
}

/// SQLite has no column list on a table alias: `(VALUES ...) AS "n" ("c")` -> `(SELECT column1 AS "c" FROM (VALUES ...)) AS "n"`.
/// Fires only on exactly that shape.
pub fn patch_values_alias(sql: &str) -> String {
    let mut out = String::new();
    let mut rest = sql;
    loop {
        let Some(i) = find_outside_quotes(rest, "(VALUES ") else {
            out.push_str(rest);
            return out;
        };
        // matching close paren
        let bytes = rest.as_bytes();
        let mut depth = 0i32;
        let mut j = i;
        let mut in_s = false;
        let mut in_d = false;
        let mut close = None;
        while j < bytes.len() {
            let c = bytes[j] as char;
            if in_s {
                if c == '\'' {
                    in_s = false;
                }
            } else if in_d {
                if c == '"' {
                    in_d = false;
                }
            } else {
                match c {
                    '\'' => in_s = true,
                    '"' => in_d = true,
                    '(' => depth += 1,
                    ')' => {
                        depth -= 1;
                        if depth == 0 {
                            close = Some(j);
                            break;
                        }
                    }
                    _ => {}
                }
            }
            j += 1;
        }
        let Some(close) = close else {
            out.push_str(rest);
            return out;
        };
        let after = &rest[close + 1..];
        // expect:  AS "name" ("col" [, "col"]*)
        let parsed = parse_alias_cols(after);
        match parsed {
            Some((name, cols, consumed)) => {
                out.push_str(&rest[..i]);
                let inner = &rest[i + 1..close]; // VALUES ...
                let sel: Vec<String> = cols.iter().enumerate().map(|(k, c)| format!("column{} AS {}", k + 1, c)).collect();
                out.push_str(&format!("(SELECT {} FROM ({})) AS {}", sel.join(", "), inner, name));
                rest = &after[consumed..];
            }
            None => {
                out.push_str(&rest[..close + 1]);
                rest = after;
            }
        }
    }
}

/// SQLite needs a LIMIT before OFFSET: `... OFFSET n` -> `... LIMIT -1 OFFSET n` (only when no LIMIT precedes it)
pub fn patch_bare_offset(sql: &str) -> String {
    let mut out = String::new();
    let mut rest = sql;
    while let Some(i) = find_outside_quotes(rest, " OFFSET ") {
        let before = &rest[..i];
        let tail: String = before.chars().rev().take(24).collect::<String>().chars().rev().collect();
        out.push_str(before);
        if !tail.contains(" LIMIT ") {
            out.push_str(" LIMIT -1");
        }
        out.push_str(" OFFSET ");
        rest = &rest[i + 8..];
    }
    out.push_str(rest);
    out
}

fn find_outside_quotes(s: &str, pat: &str) -> Option<usize> {
    let bytes = s.as_bytes();
    let mut in_s = false;
    let mut in_d = false;
    let mut i = 0;
    while i < bytes.len() {
        let c = bytes[i] as char;
        if in_s {
            if c == '\'' {
                in_s = false;
            }
        } else if in_d {
            if c == '"' {
                in_d = false;
            }
        } else if c == '\'' {
            in_s = true;
        } else if c == '"' {
            in_d = true;
        } else if s[i..].starts_with(pat) {
            return Some(i);
        }
        i += 1;
    }
    None
}

fn parse_alias_cols(s: &str) -> Option<(String, Vec<String>, usize)> {
    let t = s.trim_start();
    let lead = s.len() - t.len();
    let t2 = t.strip_prefix("AS ")?;
    let (name, used) = read_ident(t2)?;
    let t3 = &t2[used..];
    let t4 = t3.trim_start();
    let ws = t3.len() - t4.len();
    let t5 = t4.strip_prefix('(')?;
    let mut cols = vec![];
    let mut pos = 0usize;
    loop {
        let r = &t5[pos..];
        let r2 = r.trim_start();
        pos += r.len() - r2.len();
        let (c, u) = read_ident(r2)?;
        cols.push(c);
        pos += u;
        let r3 = &t5[pos..];
        let r4 = r3.trim_start();
        pos += r3.len() - r4.len();
        if r4.starts_with(',') {
            pos += 1;
        } else if r4.starts_with(')') {
            pos += 1;
            break;
        } else {
            return None;
        }
    }
    Some((name, cols, lead + 3 + used + ws + 1 + pos))
}

fn read_ident(s: &str) -> Option<(String, usize)> {
    if let Some(r) = s.strip_prefix('"') {
        let mut i = 0;
        let b = r.as_bytes();
        while i < b.len() {
            if b[i] == b'"' {
                if i + 1 < b.len() && b[i + 1] == b'"' {
                    i += 2;
                    continue;
                }
                return Some((format!("\"{}\"", &r[..i]), i + 2));
            }
            i += 1;
        }
        None
    } else {
        let n = s.chars().take_while(|c| c.is_ascii_alphanumeric() || *c == '_').count();
        if n == 0 {
            None
        } else {
            Some((s[..n].to_string(), n))
        }
    }
}

// ---------------------------------------------------------------------------------------------
// comparison

pub fn cell_eq(a: &Cell, b: &Cell, rel_tol: f64) -> bool {
    let n = |c: &Cell| match c {
        Cell::Int(i) => Some(*i as f64),
        Cell::Real(f) => Some(*f),
        _ => None,
    };
    match (a, b) {
        (Cell::Null, Cell::Null) => true,
        (Cell::Text(x), Cell::Text(y)) => x == y,
        (Cell::Blob(x), Cell::Blob(y)) => x == y,
        (Cell::Int(x), Cell::Int(y)) => x == y,
        _ => match (n(a), n(b)) {
            (Some(x), Some(y)) => {
                if x == y {
                    true
                } else {
                    let scale = x.abs().max(y.abs()).max(1e-300);
                    (x - y).abs() <= rel_tol * scale
                }
            }
            _ => false,
        },
    }
}

fn cell_key(c: &Cell) -> (u8, f64, String) {
    match c {
        Cell::Null => (0, 0.0, String::new()),
        Cell::Int(i) => (1, *i as f64, String::new()),
        Cell::Real(f) => (1, *f, String::new()),
        Cell::Text(s) => (2, 0.0, s.clone()),
        Cell::Blob(b) => (3, 0.0, format!("{b:?}")),
    }
}

pub fn sort_rows(rows: &mut Vec<Vec<Cell>>) {
    rows.sort_by(|a, b| {
        for (x, y) in a.iter().zip(b.iter()) {
            let (kx, ky) = (cell_key(x), cell_key(y));
            let o = kx.0.cmp(&ky.0).then(kx.1.total_cmp(&ky.1)).then(kx.2.cmp(&ky.2));
            if o != std::cmp::Ordering::Equal {
                return o;
            }
        }
        a.len().cmp(&b.len())
    });
}

/// multiset equality of rows with a float tolerance
pub fn same_multiset(a: &[Vec<Cell>], b: &[Vec<Cell>], rel_tol: f64) -> bool {
    if a.len() != b.len() {
        return false;
    }
    let mut a = a.to_vec();
    let mut b = b.to_vec();
    sort_rows(&mut a);
    sort_rows(&mut b);
    if a.iter().zip(b.iter()).all(|(x, y)| x.len() == y.len() && x.iter().zip(y.iter()).all(|(p, q)| cell_eq(p, q, rel_tol))) {
        return true;
    }
    // tolerance may break the sort order: fall back to greedy matching
    let mut used = vec![false; b.len()];
    'outer: for x in &a {
        for (j, y) in b.iter().enumerate() {
            if !used[j] && x.len() == y.len() && x.iter().zip(y.iter()).all(|(p, q)| cell_eq(p, q, rel_tol)) {
                used[j] = true;
                continue 'outer;
            }
        }
        return false;
    }
    true
}

pub fn show_rows(rows: &[Vec<Cell>], max: usize) -> String {
    let mut s: Vec<String> = rows.iter().take(max).map(|r| format!("({})", r.iter().map(|c| c.to_string()).collect::<Vec<_>>().join(", "))).collect();
    if rows.len() > max {
        s.push(format!("… {} rows", rows.len()));
    }
    s.join(" ")
}
