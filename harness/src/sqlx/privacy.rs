//! Privacy-unit and DP-parameter specs resolved against a DbSpec.
use super::db::DbSpec;
use proptest::prelude::*;
use qrlew::differential_privacy::DpParameters;
use qrlew::hierarchy::Hierarchy;
use qrlew::privacy_unit_tracking::PrivacyUnit;
use qrlew::synthetic_data::SyntheticData;
use serde::{Deserialize, Serialize};

#[derive(Clone, Debug, Serialize, Deserialize, PartialEq)]
pub enum PuKind {
    /// public table
    None,
    /// the table has its own privacy-unit column
    Own(u16),
    /// every row is its own unit
    Row,
    /// foreign key: (referring column, target table index, referred id column in the target)
    Fk(u16, u8, u16),
}

#[derive(Clone, Debug, Serialize, Deserialize)]
pub struct PuSpec {
    pub kinds: Vec<PuKind>,
    pub hash: bool,
    pub synthetic: bool,
}

#[derive(Clone, Debug)]
pub struct ResolvedTable {
    pub table: String,
    /// (referring column, referred table, referred id column) steps
    pub path: Vec<(String, String, String)>,
    /// privacy unit column in the last table of the path, or the row marker
    pub unit_col: String,
    pub row: bool,
}

fn col_name(db: &DbSpec, ti: usize, ci: u16) -> String {
    let t = &db.tables[ti];
    t.cols[(ci as usize * t.cols.len()) >> 16].name.clone()
}

impl PuSpec {
    /// None when no table ends up protected
    pub fn resolve(&self, db: &DbSpec) -> Vec<ResolvedTable> {
        let n = db.tables.len();
        let kind = |i: usize| self.kinds.get(i).cloned().unwrap_or(PuKind::None);
        let mut out = vec![];
        for i in 0..n {
            if db.tables[i].cols.is_empty() {
                continue;
            }
            match kind(i) {
                PuKind::None => {}
                PuKind::Own(c) => out.push(ResolvedTable { table: db.tables[i].name.clone(), path: vec![], unit_col: col_name(db, i, c), row: false }),
                PuKind::Row => out.push(ResolvedTable { table: db.tables[i].name.clone(), path: vec![], unit_col: PrivacyUnit::privacy_unit_row().to_string(), row: true }),
                PuKind::Fk(fk, target, rid) => {
                    // follow at most two steps; the chain must end in a table with its own unit column
                    let mut path = vec![];
                    let mut cur = i;
                    let mut step = (fk, target as usize % n, rid);
                    let mut ok = false;
                    let mut unit_col = String::new();
                    for _ in 0..2 {
                        let (fkc, tgt, ridc) = step;
                        if tgt == cur || db.tables[tgt].cols.is_empty() {
                            break;
                        }
                        path.push((col_name(db, cur, fkc), db.tables[tgt].name.clone(), col_name(db, tgt, ridc)));
                        match kind(tgt) {
                            PuKind::Own(c) => {
                                unit_col = col_name(db, tgt, c);
                                ok = true;
                                break;
                            }
                            PuKind::Fk(a, b, c) => {
                                cur = tgt;
                                step = (a, b as usize % n, c);
                            }
                            _ => break,
                        }
                    }
                    if ok {
                        out.push(ResolvedTable { table: db.tables[i].name.clone(), path, unit_col, row: false });
                    }
                }
            }
        }
        out
    }

    pub fn privacy_unit(&self, db: &DbSpec) -> Option<(PrivacyUnit, Vec<ResolvedTable>)> {
        let r = self.resolve(db);
        if r.is_empty() {
            return None;
        }
        let v: Vec<(&str, Vec<(&str, &str, &str)>, &str)> = r
            .iter()
            .map(|t| (t.table.as_str(), t.path.iter().map(|(a, b, c)| (a.as_str(), b.as_str(), c.as_str())).collect(), t.unit_col.as_str()))
            .collect();
        Some((PrivacyUnit::from((v, self.hash)), r))
    }

    pub fn synthetic_data(&self, db: &DbSpec) -> Option<SyntheticData> {
        if !self.synthetic {
            return None;
        }
        let h: Hierarchy<qrlew::expr::identifier::Identifier> = db.tables.iter().map(|t| (vec![t.name.clone()], qrlew::expr::identifier::Identifier::from(t.name.clone()))).collect();
        Some(SyntheticData::new(h))
    }
}

#[derive(Clone, Debug, Serialize, Deserialize)]
pub struct DpSpec {
    pub epsilon: f64,
    pub delta: f64,
    pub tau_share: f64,
    pub max_mult: f64,
    pub max_mult_share: f64,
    pub max_groups: u64,
}

impl DpSpec {
    pub fn params(&self) -> DpParameters {
        DpParameters::new(self.epsilon, self.delta, self.tau_share, self.max_mult, self.max_mult_share, self.max_groups)
    }
}

pub fn pu_strategy() -> BoxedStrategy<PuSpec> {
    let kind = prop_oneof![
        25 => Just(PuKind::None),
        40 => any::<u16>().prop_map(PuKind::Own),
        10 => Just(PuKind::Row),
        25 => (any::<u16>(), 0u8..4, any::<u16>()).prop_map(|(a, b, c)| PuKind::Fk(a, b, c)),
    ];
    (proptest::collection::vec(kind, 4..=4), prop::bool::weighted(0.3), prop::bool::weighted(0.3))
        .prop_map(|(kinds, hash, synthetic)| PuSpec { kinds, hash, synthetic })
        .boxed()
}

/// ordinary parameters
pub fn dp_strategy() -> BoxedStrategy<DpSpec> {
    (
        prop::sample::select(vec![1e-3, 0.1, 0.5, 1.0, 2.0, 10.0]),
        prop::sample::select(vec![1e-12, 1e-9, 1e-6, 1e-4, 1e-3, 0.1]),
        prop::sample::select(vec![0.1, 0.25, 0.5, 0.8, 0.9]),
        prop::sample::select(vec![1.0, 2.0, 5.0, 100.0]),
        prop::sample::select(vec![0.01, 0.1, 0.5, 1.0]),
        1u64..8,
    )
        .prop_map(|(epsilon, delta, tau_share, max_mult, max_mult_share, max_groups)| DpSpec { epsilon, delta, tau_share, max_mult, max_mult_share, max_groups })
        .boxed()
}

/// parameters including zero budgets and degenerate shares (C18)
pub fn dp_extreme_strategy() -> BoxedStrategy<DpSpec> {
    (
        prop::sample::select(vec![0.0, 1e-300, 1e-3, 1.0, 10.0, 1e300]),
        prop::sample::select(vec![0.0, 1e-300, 1e-9, 1e-3, 0.5, 1.0]),
        prop::sample::select(vec![0.0, 0.5, 1.0]),
        prop::sample::select(vec![0.0, 1.0, 100.0, 1e300]),
        prop::sample::select(vec![0.0, 0.1, 1.0]),
        prop::sample::select(vec![0u64, 1, 5, u64::MAX]),
    )
        .prop_map(|(epsilon, delta, tau_share, max_mult, max_mult_share, max_groups)| DpSpec { epsilon, delta, tau_share, max_mult, max_mult_share, max_groups })
        .boxed()
}
