//! Membership oracle `v ∈ T` with a strict and a lax reading (DESIGN §C11).
use crate::safe::safe;
use qrlew::data_type::value::{self, Value};
use qrlew::data_type::{DataType, Variant as _};
use qrlew::data_type::value::Variant as _;

#[derive(Clone, Copy, Debug, PartialEq, Eq)]
pub enum Tri {
    Yes,
    No,
    Unknown,
}

pub fn type_tag(t: &DataType) -> &'static str {
    match t {
        DataType::Null => "null",
        DataType::Unit(_) => "unit",
        DataType::Boolean(_) => "bool",
        DataType::Integer(_) => "int",
        DataType::Enum(_) => "enum",
        DataType::Float(_) => "float",
        DataType::Text(_) => "text",
        DataType::Bytes(_) => "bytes",
        DataType::Struct(_) => "struct",
        DataType::Union(_) => "union",
        DataType::Optional(_) => "optional",
        DataType::List(_) => "list",
        DataType::Set(_) => "set",
        DataType::Array(_) => "array",
        DataType::Date(_) => "date",
        DataType::Time(_) => "time",
        DataType::DateTime(_) => "datetime",
        DataType::Duration(_) => "duration",
        DataType::Id(_) => "id",
        DataType::Function(_) => "function",
        DataType::Any => "any",
    }
}

pub fn value_tag(v: &Value) -> &'static str {
    match v {
        Value::Unit(_) => "unit",
        Value::Boolean(_) => "bool",
        Value::Integer(_) => "int",
        Value::Enum(_) => "enum",
        Value::Float(_) => "float",
        Value::Text(_) => "text",
        Value::Bytes(_) => "bytes",
        Value::Struct(_) => "struct",
        Value::Union(_) => "union",
        Value::Optional(_) => "optional",
        Value::List(_) => "list",
        Value::Set(_) => "set",
        Value::Array(_) => "array",
        Value::Date(_) => "date",
        Value::Time(_) => "time",
        Value::DateTime(_) => "datetime",
        Value::Duration(_) => "duration",
        Value::Id(_) => "id",
        Value::Function(_) => "function",
    }
}

/// Strict: same variant tag at every level of the structure (tested by the harness) and the library's
/// `contains` at the primitive leaves. (`DataType::contains` has a cross-variant fallback that converts the
/// *type* towards the value, e.g. `int{}.contains(NULL)`; a premise must not be satisfied that way.)
pub fn strict(t: &DataType, v: &Value) -> Tri {
    if matches!(t, DataType::Any) {
        return Tri::Yes;
    }
    if type_tag(t) != value_tag(v) {
        return Tri::No;
    }
    fn all<'a>(it: impl Iterator<Item = Tri>) -> Tri {
        let mut r = Tri::Yes;
        for x in it {
            match x {
                Tri::No => return Tri::No,
                Tri::Unknown => r = Tri::Unknown,
                Tri::Yes => {}
            }
        }
        r
    }
    match (t, v) {
        (DataType::Optional(o), Value::Optional(vo)) => match vo.as_ref() {
            None => Tri::Yes,
            Some(x) => strict(o.data_type(), x),
        },
        (DataType::Struct(ts), Value::Struct(vs)) => {
            if ts.fields().len() != vs.fields().len() {
                return Tri::No;
            }
            if ts.fields().iter().zip(vs.fields().iter()).any(|((a, _), (b, _))| a != b) {
                return Tri::No;
            }
            all(ts.fields().iter().zip(vs.fields().iter()).map(|((_, tt), (_, vv))| strict(tt, vv)))
        }
        (DataType::Union(u), Value::Union(vu)) => match u.fields().iter().find(|(n, _)| *n == vu.0) {
            Some((_, tt)) => strict(tt, &vu.1),
            None => Tri::No,
        },
        (DataType::List(l), Value::List(vs)) => {
            if !l.size().contains(&(vs.to_vec().len() as i64)) {
                return Tri::No;
            }
            all(vs.to_vec().iter().map(|x| strict(l.data_type(), x)))
        }
        (DataType::Set(l), Value::Set(vs)) => {
            if !l.size().contains(&(vs.len() as i64)) {
                return Tri::No;
            }
            all(vs.iter().map(|x| strict(l.data_type(), x)))
        }
        (DataType::Array(a), Value::Array(va)) => {
            if a.shape() != va.1.as_slice() {
                return Tri::No;
            }
            all(va.0.iter().map(|x| strict(a.data_type(), x)))
        }
        _ => match safe(|| t.contains(v)) {
            Ok(true) => Tri::Yes,
            Ok(false) => Tri::No,
            Err(_) => Tri::Unknown,
        },
    }
}

fn is_none(v: &Value) -> bool {
    matches!(v, Value::Optional(o) if o.as_ref().is_none())
}

/// numeric / temporal embeddings of the harness
fn embeddings(v: &Value) -> Vec<Value> {
    let mut out = vec![];
    match v {
        Value::Float(f) => {
            let f: f64 = **f;
            if f.fract() == 0.0 && f.abs() < 9.2e18 {
                out.push(Value::integer(f as i64));
            }
            if f == 0.0 {
                out.push(Value::boolean(false));
            }
            if f == 1.0 {
                out.push(Value::boolean(true));
            }
        }
        Value::Integer(i) => {
            let i: i64 = **i;
            out.push(Value::float(i as f64));
            if i == 0 {
                out.push(Value::boolean(false));
            }
            if i == 1 {
                out.push(Value::boolean(true));
            }
        }
        Value::Boolean(b) => {
            let b: bool = **b;
            out.push(Value::integer(b as i64));
            out.push(Value::float(b as i64 as f64));
        }
        Value::Date(d) => {
            let d: chrono::NaiveDate = **d;
            out.push(Value::date_time(d.and_hms_opt(0, 0, 0).unwrap()));
        }
        Value::DateTime(d) => {
            let d: chrono::NaiveDateTime = **d;
            if d.time() == chrono::NaiveTime::from_hms_opt(0, 0, 0).unwrap() {
                out.push(Value::date(d.date()));
            }
        }
        _ => {}
    }
    out
}

/// Lax: strict, or the library's own value conversion lands inside, or a harness embedding lands inside.
pub fn lax(t: &DataType, v: &Value) -> Tri {
    lax_depth(t, v, 0)
}

fn lax_depth(t: &DataType, v: &Value, depth: u32) -> Tri {
    if depth > 6 {
        return Tri::Unknown;
    }
    let s = strict(t, v);
    if s == Tri::Yes {
        return Tri::Yes;
    }
    let mut unknown = s == Tri::Unknown;
    // optional handling
    match (t, v) {
        (DataType::Optional(o), Value::Optional(vo)) => {
            return match vo.as_ref() {
                None => Tri::Yes,
                Some(x) => lax_depth(o.data_type(), x, depth + 1),
            };
        }
        // the library identifies the unit value with NULL (`Unit ⊆ Optional(_)` is declared true)
        (DataType::Optional(_), Value::Unit(_)) => return Tri::Yes,
        (DataType::Optional(o), x) => {
            return lax_depth(o.data_type(), x, depth + 1);
        }
        (t, Value::Optional(vo)) => {
            return match vo.as_ref() {
                None => {
                    if unknown {
                        Tri::Unknown
                    } else {
                        Tri::No
                    }
                }
                Some(x) => lax_depth(t, x, depth + 1),
            };
        }
        (DataType::Struct(ts), Value::Struct(vs)) => {
            if ts.fields().len() != vs.fields().len() {
                return Tri::No;
            }
            let mut r = Tri::Yes;
            for ((tn, tt), (vn, vv)) in ts.fields().iter().zip(vs.fields().iter()) {
                if tn != vn {
                    return Tri::No;
                }
                match lax_depth(tt, vv, depth + 1) {
                    Tri::No => return Tri::No,
                    Tri::Unknown => r = Tri::Unknown,
                    Tri::Yes => {}
                }
            }
            return r;
        }
        (DataType::List(l), Value::List(vs)) => {
            let n = vs.to_vec().len() as i64;
            if !l.size().contains(&n) {
                return Tri::No;
            }
            let mut r = Tri::Yes;
            for x in vs.to_vec() {
                match lax_depth(l.data_type(), x, depth + 1) {
                    Tri::No => return Tri::No,
                    Tri::Unknown => r = Tri::Unknown,
                    Tri::Yes => {}
                }
            }
            return r;
        }
        (DataType::Set(l), Value::Set(vs)) => {
            let n = vs.len() as i64;
            if !l.size().contains(&n) {
                return Tri::No;
            }
            let mut r = Tri::Yes;
            for x in vs.iter() {
                match lax_depth(l.data_type(), x, depth + 1) {
                    Tri::No => return Tri::No,
                    Tri::Unknown => r = Tri::Unknown,
                    Tri::Yes => {}
                }
            }
            return r;
        }
        (DataType::Union(u), Value::Union(vu)) => {
            let (name, inner) = (&vu.0, &vu.1);
            return match u.fields().iter().find(|(n, _)| n == name) {
                Some((_, t)) => lax_depth(t, inner, depth + 1),
                None => Tri::No,
            };
        }
        _ => {}
    }
    // library conversion of the value into the type's variant
    match safe(|| v.as_data_type(t)) {
        Ok(Ok(w)) => match strict(t, &w) {
            Tri::Yes => return Tri::Yes,
            Tri::Unknown => unknown = true,
            Tri::No => {}
        },
        Ok(Err(_)) => {}
        Err(_) => unknown = true,
    }
    for w in embeddings(v) {
        match strict(t, &w) {
            Tri::Yes => return Tri::Yes,
            Tri::Unknown => unknown = true,
            Tri::No => {}
        }
    }
    if unknown {
        Tri::Unknown
    } else {
        Tri::No
    }
}

pub fn is_null_value(v: &Value) -> bool {
    is_none(v)
}

/// Unwrap `some(x)` to x (recursively); None for NULL
pub fn unwrap_some(v: &Value) -> Option<Value> {
    match v {
        Value::Optional(o) => match o.as_ref() {
            None => None,
            Some(x) => unwrap_some(x),
        },
        x => Some(x.clone()),
    }
}

pub fn value_none() -> Value {
    Value::Optional(value::Optional::none())
}

fn is_composite_tag(t: &str) -> bool {
    matches!(t, "struct" | "union" | "optional" | "list" | "set" | "array" | "function")
}

/// Structural class of an ordered pair of types: the first level at which they stop having the same variant
/// (descending through equal composite wrappers). Used as the root-cause key of lattice-law violations.
pub fn pair_class(a: &DataType, b: &DataType) -> String {
    fn go(a: &DataType, b: &DataType, depth: u32) -> String {
        let (ta, tb) = (type_tag(a), type_tag(b));
        let pre = if depth > 0 { "nested:" } else { "" };
        if ta != tb {
            return match (is_composite_tag(ta), is_composite_tag(tb)) {
                (false, false) => format!("{pre}prim:{ta}/{tb}"),
                (true, false) => format!("{pre}mixed:{ta}/prim"),
                (false, true) => format!("{pre}mixed:prim/{tb}"),
                (true, true) => format!("{pre}mixed:{ta}/{tb}"),
            };
        }
        match (a, b) {
            (DataType::Optional(x), DataType::Optional(y)) => go(x.data_type(), y.data_type(), depth + 1),
            (DataType::List(x), DataType::List(y)) => go(x.data_type(), y.data_type(), depth + 1),
            (DataType::Set(x), DataType::Set(y)) => go(x.data_type(), y.data_type(), depth + 1),
            (DataType::Array(x), DataType::Array(y)) => go(x.data_type(), y.data_type(), depth + 1),
            (DataType::Struct(x), DataType::Struct(y)) => {
                let nx: Vec<&String> = x.fields().iter().map(|(n, _)| n).collect();
                let ny: Vec<&String> = y.fields().iter().map(|(n, _)| n).collect();
                if nx != ny {
                    return format!("{pre}struct:fields_differ");
                }
                for ((_, tx), (_, ty)) in x.fields().iter().zip(y.fields().iter()) {
                    let c = go(tx, ty, depth + 1);
                    if !c.contains("same:") {
                        return c;
                    }
                }
                format!("{pre}same:struct")
            }
            (DataType::Union(x), DataType::Union(y)) => {
                let nx: Vec<&String> = x.fields().iter().map(|(n, _)| n).collect();
                let ny: Vec<&String> = y.fields().iter().map(|(n, _)| n).collect();
                if nx != ny {
                    return format!("{pre}union:fields_differ");
                }
                for ((_, tx), (_, ty)) in x.fields().iter().zip(y.fields().iter()) {
                    let c = go(tx, ty, depth + 1);
                    if !c.contains("same:") {
                        return c;
                    }
                }
                format!("{pre}same:union")
            }
            _ => format!("{pre}same:{ta}"),
        }
    }
    go(a, b, 0)
}

pub fn is_prim(t: &DataType) -> bool {
    !is_composite_tag(type_tag(t))
}

/// The fragment of the type language the relational engine itself uses: primitives, optional primitives,
/// flat structs of those (row types), lists of (optional) primitives (aggregate arguments).
pub fn is_relational(t: &DataType) -> bool {
    fn cell(t: &DataType) -> bool {
        match t {
            DataType::Optional(o) => is_prim(o.data_type()) && !matches!(o.data_type(), DataType::Enum(_)),
            DataType::Enum(_) => false,
            t => is_prim(t),
        }
    }
    match t {
        DataType::Struct(s) => s.fields().iter().all(|(_, f)| cell(f)),
        DataType::List(l) => cell(l.data_type()),
        t => cell(t),
    }
}

/// Both types relational and structurally aligned (same struct field names)
pub fn relational_pair(a: &DataType, b: &DataType) -> bool {
    if !is_relational(a) || !is_relational(b) {
        return false;
    }
    match (a, b) {
        (DataType::Struct(x), DataType::Struct(y)) => {
            x.fields().iter().map(|(n, _)| n).collect::<Vec<_>>() == y.fields().iter().map(|(n, _)| n).collect::<Vec<_>>()
        }
        (DataType::Struct(_), _) | (_, DataType::Struct(_)) => false,
        (DataType::List(_), DataType::List(_)) => true,
        (DataType::List(_), _) | (_, DataType::List(_)) => false,
        _ => true,
    }
}

/// A coarse cause label derived from the witness value of a violation: the highest-priority special leaf it contains
pub fn witness_cause(v: &Value) -> &'static str {
    fn leaves(v: &Value, out: &mut Vec<&'static str>) {
        match v {
            Value::Float(f) => {
                let f: f64 = **f;
                if f == 0.0 {
                    out.push("float_zero")
                } else if f.abs() >= 9007199254740992.0 {
                    out.push("beyond_2p53")
                } else if f.abs() < 1e-4 {
                    out.push("tiny_float")
                }
            }
            Value::Integer(i) => {
                let i: i64 = **i;
                if i.unsigned_abs() >= (1u64 << 53) {
                    out.push("beyond_2p53")
                }
            }
            Value::Date(d) => {
                let d: chrono::NaiveDate = **d;
                if d == chrono::NaiveDate::MIN || d == chrono::NaiveDate::MAX {
                    out.push("extreme_date")
                }
            }
            Value::DateTime(d) => {
                let d: chrono::NaiveDateTime = **d;
                if d.date() == chrono::NaiveDate::MIN || d.date() == chrono::NaiveDate::MAX {
                    out.push("extreme_date")
                }
            }
            Value::Duration(d) => {
                let d: chrono::Duration = **d;
                if d == chrono::Duration::MAX || d == chrono::Duration::MIN {
                    out.push("extreme_duration")
                }
            }
            Value::Text(s) => {
                let s: &String = &**s;
                if s.is_empty() {
                    out.push("empty_text")
                } else if s.as_str() < "\u{1}" || s.as_str() >= "\u{10FFFF}" {
                    out.push("extreme_text")
                }
            }
            Value::Optional(o) => match o.as_ref() {
                None => out.push("null"),
                Some(x) => leaves(x, out),
            },
            Value::Struct(s) => s.fields().iter().for_each(|(_, x)| leaves(x, out)),
            Value::List(l) => l.to_vec().iter().for_each(|x| leaves(x, out)),
            Value::Set(l) => l.iter().for_each(|x| leaves(x, out)),
            Value::Array(a) => a.0.iter().for_each(|x| leaves(x, out)),
            Value::Union(u) => leaves(&u.1, out),
            _ => {}
        }
    }
    let mut out = vec![];
    leaves(v, &mut out);
    for c in ["beyond_2p53", "extreme_date", "float_zero", "empty_text", "extreme_text", "extreme_duration", "null", "tiny_float"] {
        if out.contains(&c) {
            return c;
        }
    }
    "plain"
}
