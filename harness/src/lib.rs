pub fn hello() {}
