pub mod ir;
pub mod isolate;
pub mod member;
pub mod props;
pub mod run;
pub mod safe;
pub mod spec;
pub mod sqlx;
