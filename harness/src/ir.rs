//! Structural extraction of the DP mechanisms from a rewritten relation: noise terms (sigma), clipping constants (C)
//! and thresholds (tau). The plan is a DAG: every walker memoises on the node address.
use qrlew::data_type::value::Value;
use qrlew::expr::function::Function as F;
use qrlew::expr::Expr;
use qrlew::relation::{Relation, Variant as _};

pub fn all_nodes<'a>(r: &'a Relation, out: &mut Vec<&'a Relation>) {
    if out.iter().any(|x| std::ptr::eq(*x, r)) {
        return;
    }
    out.push(r);
    for i in r.inputs() {
        all_nodes(i, out);
    }
}

fn num(v: &Value) -> Option<f64> {
    match v {
        Value::Float(f) => Some(**f),
        Value::Integer(i) => Some(**i as f64),
        _ => None,
    }
}

pub fn contains_random(e: &Expr) -> bool {
    match e {
        Expr::Function(f) => matches!(f.function(), F::Random(_)) || f.arguments().iter().any(contains_random),
        Expr::Aggregate(a) => contains_random(a.argument()),
        _ => false,
    }
}

fn col_name(e: &Expr) -> Option<String> {
    match e {
        Expr::Column(c) => Some(c.last().map(|s| s.to_string()).unwrap_or_default()),
        _ => None,
    }
}

/// `x + sigma * (sqrt(-2 ln random()) * cos(2 pi random()))`, possibly inside least(max, greatest(min, .)) and with
/// x = coalesce(col, 0): returns (input column, sigma, clamp)
pub fn noise_term(e: &Expr) -> Option<(String, f64, Option<(f64, f64)>)> {
    if let Expr::Function(f) = e {
        let args = f.arguments();
        match f.function() {
            F::Least if args.len() == 2 => {
                if let (Expr::Value(hi), Expr::Function(g)) = (&args[0], &args[1]) {
                    if g.function() == F::Greatest {
                        let ga = g.arguments();
                        if let Expr::Value(lo) = &ga[0] {
                            let (c, s, _) = noise_term(&ga[1])?;
                            return Some((c, s, Some((num(lo)?, num(hi)?))));
                        }
                    }
                }
                None
            }
            F::Plus if args.len() == 2 => {
                let base = match &args[0] {
                    Expr::Column(_) => col_name(&args[0])?,
                    Expr::Function(c) if c.function() == F::Coalesce => col_name(&c.arguments()[0])?,
                    _ => return None,
                };
                if let Expr::Function(m) = &args[1] {
                    if m.function() == F::Multiply {
                        let ma = m.arguments();
                        if let Expr::Value(s) = &ma[0] {
                            if contains_random(&ma[1]) {
                                return Some((base, num(s)?, None));
                            }
                        }
                    }
                }
                None
            }
            _ => None,
        }
    } else {
        None
    }
}

/// finds `sqrt(col) / C` anywhere in the expression (the clip factor 1 / greatest(1, sqrt(norm2) / C)): returns C
pub fn clip_constant(e: &Expr) -> Option<f64> {
    if let Expr::Function(f) = e {
        let args = f.arguments();
        if f.function() == F::Divide && args.len() == 2 {
            if let (Expr::Function(s), Expr::Value(c)) = (&args[0], &args[1]) {
                if s.function() == F::Sqrt {
                    return num(c);
                }
            }
        }
        for a in &args {
            if let Some(c) = clip_constant(a) {
                return Some(c);
            }
        }
    }
    None
}

#[derive(Clone, Debug)]
pub struct NoiseCol {
    pub out_col: String,
    pub in_col: String,
    pub sigma: f64,
    pub clamp: Option<(f64, f64)>,
}

pub struct NoiseMap<'a> {
    pub map: &'a Relation,
    pub input: &'a Relation,
    pub cols: Vec<NoiseCol>,
    /// a noised distinct-unit count (key release) rather than an aggregate
    pub is_threshold_count: bool,
}

#[derive(Clone, Debug)]
pub struct Clip {
    pub col: String,
    pub c: f64,
}

#[derive(Clone, Debug)]
pub struct Threshold<'a> {
    pub tau: f64,
    pub strict: bool,
    pub col: String,
    /// the Map that filters on the noised count: its rows are the released keys
    pub node: &'a Relation,
}

pub struct Analysis<'a> {
    pub noise_maps: Vec<NoiseMap<'a>>,
    pub clips: Vec<Clip>,
    /// scale factor literally 0 (clip bound 0)
    pub zero_clips: Vec<String>,
    pub thresholds: Vec<Threshold<'a>>,
    /// expressions that call random() but match no known pattern (other than the bare `random()` ranking column)
    pub unexplained_random: Vec<String>,
}

pub fn analyze(rel: &Relation) -> Analysis<'_> {
    let mut nodes = vec![];
    all_nodes(rel, &mut nodes);
    let mut an = Analysis { noise_maps: vec![], clips: vec![], zero_clips: vec![], thresholds: vec![], unexplained_random: vec![] };
    for n in &nodes {
        let Relation::Map(m) = n else { continue };
        let mut cols = vec![];
        for (f, e) in m.schema().iter().zip(m.projection().iter()) {
            if let Some((in_col, sigma, clamp)) = noise_term(e) {
                cols.push(NoiseCol { out_col: f.name().to_string(), in_col, sigma, clamp });
            } else if contains_random(e) {
                // the contribution-ranking column is a bare random(); row-privacy ids too
                let bare = matches!(e, Expr::Function(fx) if matches!(fx.function(), F::Random(_)));
                if !bare {
                    an.unexplained_random.push(format!("{} := {}", f.name(), e));
                }
            }
            if let Some(c) = clip_constant(e) {
                if !an.clips.iter().any(|x| x.col == f.name() && x.c == c) {
                    an.clips.push(Clip { col: f.name().to_string(), c });
                }
            }
        }
        if !cols.is_empty() {
            let is_threshold_count = cols.iter().all(|c| c.in_col == "_COUNT_DISTINCT_PID_");
            an.noise_maps.push(NoiseMap { map: n, input: m.inputs()[0], cols, is_threshold_count });
        }
        if let Some(Expr::Function(f)) = m.filter().as_ref() {
            let args = f.arguments();
            if args.len() == 2 && matches!(f.function(), F::Gt | F::GtEq) {
                if let (Some(c), Expr::Value(v)) = (col_name(&args[0]), &args[1]) {
                    if c == "_COUNT_DISTINCT_PID_" {
                        if let Some(t) = num(v) {
                            an.thresholds.push(Threshold { tau: t, strict: f.function() == F::Gt, col: c, node: n });
                        }
                    }
                }
            }
        }
    }
    an
}

/// clip constant feeding a noised column, searched in the sub-plan below the noise Map, by the naming convention of
/// the rewriting (`_SUM_x` <- x, `_SUM_SQUARE_x` <- `_SQUARE_x`, `_COUNT_x` <- `_ONE_x`)
pub fn clip_under(input: &Relation, in_col: &str) -> Option<f64> {
    let mut cands: Vec<String> = vec![];
    if let Some(x) = in_col.strip_prefix("_SUM_") {
        cands.push(x.to_string());
        cands.push(format!("_{x}"));
    }
    if let Some(x) = in_col.strip_prefix("_COUNT_") {
        cands.push(format!("_ONE_{x}"));
    }
    cands.push(in_col.to_string());
    let mut nodes = vec![];
    all_nodes(input, &mut nodes);
    // candidates in order of preference; should one name be clipped twice below one noise Map, the larger constant is
    // the weaker claim
    for cand in &cands {
        let mut found: Option<f64> = None;
        for n in &nodes {
            let Relation::Map(m) = n else { continue };
            for (f, e) in m.schema().iter().zip(m.projection().iter()) {
                if cand == f.name() {
                    if let Some(c) = clip_constant(e) {
                        found = Some(found.map_or(c, |x: f64| x.max(c)));
                    }
                }
            }
        }
        if found.is_some() {
            return found;
        }
    }
    None
}

/// In a rendered `WITH "a" (..) AS (..), "b" (..) AS (..) SELECT ..` statement, replaces the body of the CTE `name`.
pub fn replace_cte_body(sql: &str, name: &str, body: &str) -> Option<String> {
    let head = format!("\"{name}\" (\"");
    let at = sql.find(&head)?;
    let as_at = at + sql[at..].find(") AS (")? + ") AS (".len();
    let bytes = sql.as_bytes();
    let (mut depth, mut i, mut quote) = (1usize, as_at, 0u8);
    while i < bytes.len() {
        let c = bytes[i];
        if quote != 0 {
            if c == quote {
                quote = 0;
            }
        } else if c == b'\'' || c == b'"' {
            quote = c;
        } else if c == b'(' {
            depth += 1;
        } else if c == b')' {
            depth -= 1;
            if depth == 0 {
                return Some(format!("{}{}{}", &sql[..as_at], body, &sql[i..]));
            }
        }
        i += 1;
    }
    None
}
