//! Panic capture: a silent hook that records location and message, and `safe` = catch_unwind.
use std::cell::RefCell;
use std::panic::{self, AssertUnwindSafe};

#[derive(Clone, Debug)]
pub struct Panicked {
    pub loc: String,
    pub msg: String,
}

impl Panicked {
    /// Signature of the panic that survives unrelated edits: file (no line number) and message class.
    pub fn file_line(&self) -> String {
        let f = self.file();
        let f = f.rsplit("library/").next().unwrap_or(&f).to_string();
        let m: String = self.msg_class().chars().map(|c| if c.is_ascii_alphanumeric() || c == '#' { c } else { '_' }).collect();
        format!("{}~{}", f, m)
    }
    pub fn file(&self) -> String {
        self.loc.split(':').next().unwrap_or("").to_string()
    }
    /// A short stable class of the message (digits and quoted parts removed)
    pub fn msg_class(&self) -> String {
        let mut out = String::new();
        let mut in_digits = false;
        for c in self.msg.chars().take(60) {
            if c == '|' || c == '\n' {
                out.push(' ');
                continue;
            }
            if c.is_ascii_digit() {
                if !in_digits {
                    out.push('#');
                }
                in_digits = true;
            } else {
                in_digits = false;
                out.push(c);
            }
        }
        out
    }
}

thread_local! {
    static LAST: RefCell<Option<Panicked>> = RefCell::new(None);
}

pub fn install_hook() {
    panic::set_hook(Box::new(|info| {
        let loc = info
            .location()
            .map(|l| {
                let f = l.file();
                let f = f.strip_prefix("/repo/").unwrap_or(f);
                // registry paths: keep crate-relative tail
                let f = match f.find("/registry/src/") {
                    Some(i) => {
                        let t = &f[i + "/registry/src/".len()..];
                        t.splitn(2, '/').nth(1).unwrap_or(t)
                    }
                    None => f,
                };
                format!("{}:{}", f, l.line())
            })
            .unwrap_or_else(|| "?".to_string());
        let msg = if let Some(s) = info.payload().downcast_ref::<&str>() {
            s.to_string()
        } else if let Some(s) = info.payload().downcast_ref::<String>() {
            s.clone()
        } else {
            "?".to_string()
        };
        LAST.with(|l| *l.borrow_mut() = Some(Panicked { loc, msg }));
    }));
}

pub fn safe<T>(f: impl FnOnce() -> T) -> Result<T, Panicked> {
    match panic::catch_unwind(AssertUnwindSafe(f)) {
        Ok(t) => Ok(t),
        Err(_) => Err(LAST.with(|l| l.borrow_mut().take()).unwrap_or(Panicked {
            loc: "?".into(),
            msg: "?".into(),
        })),
    }
}
