//! Panic capture: a silent hook that records location and message, and `safe` = catch_unwind.
use std::cell::RefCell;
use std::panic::{self, AssertUnwindSafe};

#[derive(Clone, Debug)]
pub struct Panicked {
    pub loc: String,
    pub msg: String,
    /// innermost library frames (function names), captured only when `capture_frames(true)` was called
    pub frames: Vec<String>,
}

static CAPTURE_FRAMES: std::sync::atomic::AtomicBool = std::sync::atomic::AtomicBool::new(false);

/// enable backtrace capture in the panic hook (process-wide; used by the C18 worker)
pub fn capture_frames(on: bool) {
    CAPTURE_FRAMES.store(on, std::sync::atomic::Ordering::SeqCst);
}

fn library_frames() -> Vec<String> {
    let bt = std::backtrace::Backtrace::force_capture().to_string();
    let mut out: Vec<String> = vec![];
    for line in bt.lines() {
        let l = line.trim();
        let Some((n, rest)) = l.split_once(": ") else { continue };
        if n.parse::<u32>().is_err() || !rest.contains("qrlew::") {
            continue;
        }
        // strip generics, hashes and closure markers: keep module path + function
        let mut name = String::new();
        let mut depth = 0i32;
        for c in rest.chars() {
            match c {
                '<' => depth += 1,
                '>' => depth -= 1,
                _ if depth == 0 => name.push(c),
                _ => {}
            }
        }
        let name = name.replace("::{{closure}}", "").replace("{{closure}}", "");
        let name = match name.rfind("::h") {
            Some(i) if name.len() - i == 19 => name[..i].to_string(),
            _ => name,
        };
        let name = name.trim_matches(':').replace(" as ", "").to_string();
        let short: Vec<&str> = name.split("::").filter(|p| !p.is_empty()).collect();
        let short = short.iter().rev().take(2).rev().cloned().collect::<Vec<_>>().join("::");
        if short.is_empty() || out.last() == Some(&short) {
            continue;
        }
        out.push(short);
        if out.len() >= 3 {
            break;
        }
    }
    out
}

impl Panicked {
    /// Signature of the panic that survives unrelated edits: file (no line number) and message class.
    pub fn file_line(&self) -> String {
        let f = self.file();
        let f = f.rsplit("library/").next().unwrap_or(&f).to_string();
        let m: String = self.msg_class().chars().map(|c| if c.is_ascii_alphanumeric() || c == '#' { c } else { '_' }).collect();
        format!("{}~{}", f, m)
    }
    /// file~message~innermost library frames
    pub fn deep_sig(&self) -> String {
        let f: String = self.frames.join("<").chars().map(|c| if c.is_ascii_alphanumeric() || c == '<' || c == ':' || c == '_' { c } else { '_' }).collect();
        format!("{}~{}", self.file_line(), f)
    }
    pub fn file(&self) -> String {
        self.loc.split(':').next().unwrap_or("").to_string()
    }
    /// A short stable class of the message: for `unwrap()` failures the error variant name, otherwise the first words
    /// with digits removed
    pub fn msg_class(&self) -> String {
        let m = &self.msg;
        let cut: String = if let Some(i) = m.find("value: ").filter(|_| m.starts_with("called")) {
            let head = &m[..i + 7];
            let tail: String = m[i + 7..].chars().take_while(|c| c.is_ascii_alphanumeric() || *c == '_' || *c == ':').collect();
            format!("{head}{tail}")
        } else {
            m.chars().take(40).collect()
        };
        let mut out = String::new();
        let mut in_digits = false;
        for c in cut.chars() {
            if c == '|' || c == '\n' {
                out.push(' ');
                continue;
            }
            if c.is_ascii_digit() {
                if !in_digits {
                    out.push('#');
                }
                in_digits = true;
            } else {
                in_digits = false;
                out.push(c);
            }
        }
        out
    }
}

thread_local! {
    static LAST: RefCell<Option<Panicked>> = RefCell::new(None);
}

pub fn install_hook() {
    panic::set_hook(Box::new(|info| {
        let loc = info
            .location()
            .map(|l| {
                let f = l.file();
                let f = f.strip_prefix("/repo/").unwrap_or(f);
                // registry paths: keep crate-relative tail
                let f = match f.find("/registry/src/") {
                    Some(i) => {
                        let t = &f[i + "/registry/src/".len()..];
                        t.splitn(2, '/').nth(1).unwrap_or(t)
                    }
                    None => f,
                };
                format!("{}:{}", f, l.line())
            })
            .unwrap_or_else(|| "?".to_string());
        let msg = if let Some(s) = info.payload().downcast_ref::<&str>() {
            s.to_string()
        } else if let Some(s) = info.payload().downcast_ref::<String>() {
            s.clone()
        } else {
            "?".to_string()
        };
        let frames = if CAPTURE_FRAMES.load(std::sync::atomic::Ordering::SeqCst) { library_frames() } else { vec![] };
        LAST.with(|l| *l.borrow_mut() = Some(Panicked { loc, msg, frames }));
    }));
}

/// the panic hook is process-wide; kept for call sites in freshly spawned threads
pub fn install_hook_once() {}

pub fn safe<T>(f: impl FnOnce() -> T) -> Result<T, Panicked> {
    match panic::catch_unwind(AssertUnwindSafe(f)) {
        Ok(t) => Ok(t),
        Err(_) => Err(LAST.with(|l| l.borrow_mut().take()).unwrap_or(Panicked {
            loc: "?".into(),
            msg: "?".into(),
            frames: vec![],
        })),
    }
}
