//! Runner: proptest driven from a binary, worker threads, statistics, findings, evidence.
use proptest::strategy::{Strategy, ValueTree};
use proptest::test_runner::{Config, RngSeed, TestCaseError, TestError, TestRunner};
use serde::{de::DeserializeOwned, Deserialize, Serialize};
use serde_json::{json, Value as J};
use std::cell::RefCell;
use std::collections::{BTreeMap, HashSet};
use std::fmt::Debug;
use std::hash::{Hash, Hasher};
use std::path::{Path, PathBuf};
use std::time::Instant;

pub const VERIF_ROOT: &str = "/verif";

#[derive(Clone, Debug, PartialEq, Eq)]
pub enum Tier {
    Quick,
    Thorough,
}

#[derive(Clone, Debug)]
pub struct Ctx {
    pub tier: Tier,
    pub seed: u64,
    pub workers: usize,
    /// multiplies every case count (used for ad-hoc deeper runs: VERIF_SCALE)
    pub scale: f64,
    /// when true known findings are not suppressed (strict replay)
    pub strict: bool,
    /// survey mode: never stop, count every failure key with one example (triage aid, not a check)
    pub survey: bool,
}

impl Ctx {
    pub fn from_env() -> Ctx {
        let tier = match std::env::var("VERIF_TIER").ok().as_deref() {
            Some("thorough") => Tier::Thorough,
            _ => Tier::Quick,
        };
        let seed = std::env::var("VERIF_SEED")
            .ok()
            .and_then(|s| s.trim().parse::<u64>().ok())
            .unwrap_or(1);
        let workers = std::env::var("VERIF_WORKERS")
            .ok()
            .and_then(|s| s.parse().ok())
            .unwrap_or(16);
        let scale = std::env::var("VERIF_SCALE")
            .ok()
            .and_then(|s| s.parse().ok())
            .unwrap_or(1.0);
        Ctx {
            tier,
            seed,
            workers,
            scale,
            strict: false,
            survey: std::env::var("VERIF_SURVEY").is_ok(),
        }
    }
    /// cases per worker for a leg given the quick count (total over all workers) and the thorough multiplier
    pub fn cases(&self, quick_total: u64, thorough_mult: u64) -> u32 {
        let total = match self.tier {
            Tier::Quick => quick_total,
            Tier::Thorough => quick_total * thorough_mult,
        };
        let per = ((total as f64) * self.scale / self.workers as f64).ceil() as u64;
        per.max(1).min(u32::MAX as u64) as u32
    }
    pub fn tier_name(&self) -> &'static str {
        match self.tier {
            Tier::Quick => "quick",
            Tier::Thorough => "thorough",
        }
    }
}

/// One violated obligation. `key` is the oracle-localised signature used to tell root causes apart.
#[derive(Clone, Debug, Serialize, Deserialize)]
pub struct Fail {
    pub key: String,
    pub detail: String,
}

impl Fail {
    pub fn new(key: impl Into<String>, detail: impl Into<String>) -> Fail {
        Fail {
            key: key.into(),
            detail: detail.into(),
        }
    }
}

#[derive(Default, Debug)]
pub struct Stats {
    pub evaluations: u64,
    pub nontrivial: HashSet<u64>,
    pub classes: BTreeMap<String, u64>,
    pub samples: Vec<J>,
    pub known: BTreeMap<String, u64>,
    pub excluded: BTreeMap<String, u64>,
    pub rejected: u64,
    pub oracle_panics: u64,
    pub sample_cap: usize,
    pub frozen: bool,
    pub survey: BTreeMap<String, (u64, String)>,
}

pub fn hash_of<T: Hash>(t: &T) -> u64 {
    let mut h = std::collections::hash_map::DefaultHasher::new();
    t.hash(&mut h);
    h.finish()
}

pub fn hash_json<T: Serialize>(t: &T) -> u64 {
    hash_of(&serde_json::to_string(t).unwrap_or_default())
}

impl Stats {
    pub fn new() -> Stats {
        Stats {
            sample_cap: 4,
            ..Default::default()
        }
    }
    pub fn eval(&mut self) {
        if !self.frozen {
            self.evaluations += 1;
        }
    }
    pub fn evals(&mut self, n: u64) {
        if !self.frozen {
            self.evaluations += n;
        }
    }
    pub fn nontrivial(&mut self, h: u64) {
        if !self.frozen {
            self.nontrivial.insert(h);
        }
    }
    pub fn class(&mut self, c: &str) {
        if !self.frozen {
            *self.classes.entry(c.to_string()).or_insert(0) += 1;
        }
    }
    pub fn class_n(&mut self, c: &str, n: u64) {
        if !self.frozen {
            *self.classes.entry(c.to_string()).or_insert(0) += n;
        }
    }
    pub fn excluded(&mut self, c: &str) {
        if !self.frozen {
            *self.excluded.entry(c.to_string()).or_insert(0) += 1;
        }
    }
    pub fn reject(&mut self) {
        if !self.frozen {
            self.rejected += 1;
        }
    }
    pub fn oracle_panic(&mut self) {
        if !self.frozen {
            self.oracle_panics += 1;
        }
    }
    pub fn sample(&mut self, f: impl FnOnce() -> J) {
        if !self.frozen && self.samples.len() < self.sample_cap {
            self.samples.push(f());
        }
    }
    pub fn merge(&mut self, o: Stats) {
        self.evaluations += o.evaluations;
        self.nontrivial.extend(o.nontrivial);
        for (k, v) in o.classes {
            *self.classes.entry(k).or_insert(0) += v;
        }
        for (k, v) in o.known {
            *self.known.entry(k).or_insert(0) += v;
        }
        for (k, v) in o.excluded {
            *self.excluded.entry(k).or_insert(0) += v;
        }
        self.rejected += o.rejected;
        self.oracle_panics += o.oracle_panics;
        for (k, (n, ex)) in o.survey {
            let e = self.survey.entry(k).or_insert((0, ex));
            e.0 += n;
        }
        for s in o.samples {
            if self.samples.len() < 10 {
                self.samples.push(s);
            }
        }
    }
    pub fn class_count(&self, c: &str) -> u64 {
        self.classes.get(c).copied().unwrap_or(0)
    }
}

// ---------------------------------------------------------------------------------------------
// Known findings

#[derive(Clone, Debug, Serialize, Deserialize)]
pub struct Finding {
    pub property: String,
    pub id: String,
    /// "open" or "fixed"
    pub status: String,
    pub what: String,
    /// signatures (violation keys; a trailing `*` makes it a prefix pattern)
    pub signatures: Vec<String>,
    /// replay file (relative to /verif) that reproduces it
    #[serde(default)]
    pub repro: Option<String>,
    #[serde(default)]
    pub commit: Option<String>,
}

#[derive(Clone, Debug, Default)]
pub struct Findings {
    pub all: Vec<Finding>,
}

/// `*` in a signature matches any (possibly empty) substring
pub fn sig_matches(sig: &str, key: &str) -> bool {
    let parts: Vec<&str> = sig.split('*').collect();
    if parts.len() == 1 {
        return sig == key;
    }
    let mut rest = key;
    for (i, part) in parts.iter().enumerate() {
        if i == 0 {
            if !rest.starts_with(part) {
                return false;
            }
            rest = &rest[part.len()..];
        } else if i == parts.len() - 1 {
            return rest.ends_with(part);
        } else {
            match rest.find(part) {
                Some(k) => rest = &rest[k + part.len()..],
                None => return false,
            }
        }
    }
    true
}

impl Findings {
    pub fn load() -> Findings {
        let p = Path::new(VERIF_ROOT).join("known_findings.json");
        let all = std::fs::read_to_string(&p)
            .ok()
            .and_then(|s| serde_json::from_str::<Vec<Finding>>(&s).ok())
            .unwrap_or_default();
        Findings { all }
    }
    pub fn for_property(&self, prop: &str) -> Vec<&Finding> {
        self.all.iter().filter(|f| f.property == prop).collect()
    }
    /// the open finding whose signature matches the key
    pub fn open_match(&self, prop: &str, key: &str) -> Option<&Finding> {
        self.all.iter().find(|f| {
            f.property == prop && f.status == "open" && f.signatures.iter().any(|s| sig_matches(s, key))
        })
    }
}

// ---------------------------------------------------------------------------------------------
// Search

pub struct Found {
    pub leg: String,
    pub fail: Fail,
    pub spec: J,
}

pub struct LegResult {
    pub leg: String,
    pub stats: Stats,
    pub found: Option<Found>,
    pub wall_s: f64,
}

/// Run one leg of a property: `workers` proptest runners, each with `cases` cases, seeds derived from ctx.seed.
/// `check` returns every violated obligation of the case; failures matching an open known finding are counted
/// and otherwise ignored so that the search continues behind them.
pub fn search<T, S, FS, FC>(
    ctx: &Ctx,
    prop: &str,
    leg: &str,
    cases: u32,
    findings: &Findings,
    strat: FS,
    check: FC,
) -> LegResult
where
    T: Debug + Serialize + Clone,
    S: Strategy<Value = T>,
    FS: Fn() -> S + Sync,
    FC: Fn(&T, &mut Stats) -> Vec<Fail> + Sync,
{
    let t0 = Instant::now();
    let leg_hash = hash_of(&leg.to_string()) % 1000;
    let results: Vec<(Stats, Option<(Fail, J)>)> = std::thread::scope(|scope| {
        let handles: Vec<_> = (0..ctx.workers)
            .map(|w| {
                let strat = &strat;
                let check = &check;
                let findings = findings;
                std::thread::Builder::new()
                    .stack_size(256 << 20)
                    .spawn_scoped(scope, move || {
                        let seed = ctx
                            .seed
                            .wrapping_mul(1_000_003)
                            .wrapping_add(leg_hash * 1000)
                            .wrapping_add(w as u64);
                        let mut config = Config::default();
                        config.cases = cases;
                        config.failure_persistence = None;
                        config.rng_seed = RngSeed::Fixed(seed);
                        config.max_shrink_iters = 4000;
                        // shrinking budget (ms): a budget hit only means a less minimal replay file
                        config.max_shrink_time = std::env::var("VERIF_MAX_SHRINK_MS").ok().and_then(|v| v.parse().ok()).unwrap_or(120_000);
                        config.max_global_rejects = 1_000_000;
                        config.max_local_rejects = 1_000_000;
                        config.verbose = 0;
                        let mut runner = TestRunner::new(config);
                        let stats = RefCell::new(Stats::new());
                        let last_fail: RefCell<Option<Fail>> = RefCell::new(None);
                        let strategy = strat();
                        let res = runner.run(&strategy, |v| {
                            let mut st = stats.borrow_mut();
                            let fails = check(&v, &mut st);
                            let mut unknown: Option<Fail> = None;
                            for f in fails {
                                if ctx.survey {
                                    if !st.survey.contains_key(&f.key) {
                                        let dir = Path::new(VERIF_ROOT).join("violations").join(prop).join("survey");
                                        let _ = std::fs::create_dir_all(&dir);
                                        let name: String = f.key.chars().map(|c| if c.is_ascii_alphanumeric() { c } else { '_' }).collect();
                                        let rf = ReplayFile { property: prop.to_string(), leg: leg.to_string(), key: f.key.clone(), detail: f.detail.clone(), spec: serde_json::to_value(&v).unwrap_or(J::Null) };
                                        let _ = std::fs::write(dir.join(format!("{name}.json")), serde_json::to_string_pretty(&rf).unwrap());
                                    }
                                    let e = st.survey.entry(f.key.clone()).or_insert((0, f.detail.clone()));
                                    e.0 += 1;
                                    continue;
                                }
                                if !ctx.strict {
                                    if let Some(k) = findings.open_match(prop, &f.key) {
                                        if !st.frozen {
                                            *st.known.entry(k.id.clone()).or_insert(0) += 1;
                                        }
                                        continue;
                                    }
                                }
                                if unknown.is_none() {
                                    unknown = Some(f);
                                }
                            }
                            match unknown {
                                None => Ok(()),
                                Some(f) => {
                                    st.frozen = true;
                                    let msg = f.key.clone();
                                    *last_fail.borrow_mut() = Some(f);
                                    Err(TestCaseError::fail(msg))
                                }
                            }
                        });
                        let mut st = stats.into_inner();
                        st.frozen = false;
                        let found = match res {
                            Ok(()) => None,
                            Err(TestError::Fail(_, minimal)) => {
                                // re-run on the minimal value to get the exact fail for it
                                let mut scratch = Stats::new();
                                scratch.frozen = true;
                                let fails = check(&minimal, &mut scratch);
                                let f = fails
                                    .into_iter()
                                    .find(|f| ctx.strict || findings.open_match(prop, &f.key).is_none())
                                    .or(last_fail.into_inner())
                                    .unwrap_or(Fail::new("unknown", "failure not reproduced on minimal value"));
                                Some((f, serde_json::to_value(&minimal).unwrap_or(J::Null)))
                            }
                            Err(TestError::Abort(reason)) => Some((
                                Fail::new("HARNESS-ABORT", format!("{reason}")),
                                J::Null,
                            )),
                        };
                        (st, found)
                    })
                    .unwrap()
            })
            .collect();
        handles.into_iter().map(|h| h.join().expect("worker panicked")).collect()
    });
    let mut stats = Stats::new();
    let mut found = None;
    for (st, f) in results {
        stats.merge(st);
        if found.is_none() {
            if let Some((fail, spec)) = f {
                found = Some(Found {
                    leg: leg.to_string(),
                    fail,
                    spec,
                });
            }
        }
    }
    LegResult {
        leg: leg.to_string(),
        stats,
        found,
        wall_s: t0.elapsed().as_secs_f64(),
    }
}

/// Generate a single value from a strategy with a fixed seed (used for samples / self-tests)
pub fn sample_one<S: Strategy>(s: &S, seed: u64) -> S::Value {
    let mut config = Config::default();
    config.rng_seed = RngSeed::Fixed(seed);
    config.failure_persistence = None;
    let mut runner = TestRunner::new(config);
    s.new_tree(&mut runner).unwrap().current()
}

// ---------------------------------------------------------------------------------------------
// Replay files

#[derive(Clone, Debug, Serialize, Deserialize)]
pub struct ReplayFile {
    pub property: String,
    pub leg: String,
    pub key: String,
    pub detail: String,
    pub spec: J,
}

pub fn write_replay(prop: &str, found: &Found) -> PathBuf {
    let dir = Path::new(VERIF_ROOT).join("replays").join(prop);
    let _ = std::fs::create_dir_all(&dir);
    let rf = ReplayFile {
        property: prop.to_string(),
        leg: found.leg.clone(),
        key: found.fail.key.clone(),
        detail: found.fail.detail.clone(),
        spec: found.spec.clone(),
    };
    let h = hash_json(&rf) % 0xffff_ffff;
    let path = dir.join(format!("violation_{}_{:08x}.json", found.leg, h));
    let _ = std::fs::write(&path, serde_json::to_string_pretty(&rf).unwrap());
    path
}

/// writes a found violation under /verif/<sub>/<prop>/<prefix>_<leg>_<hash>.json
pub fn write_replay_to(sub: &str, prop: &str, found: &Found, prefix: &str) -> PathBuf {
    let dir = Path::new(VERIF_ROOT).join(sub).join(prop);
    let _ = std::fs::create_dir_all(&dir);
    let rf = ReplayFile { property: prop.to_string(), leg: found.leg.clone(), key: found.fail.key.clone(), detail: found.fail.detail.clone(), spec: found.spec.clone() };
    let h = hash_json(&rf) % 0xffff_ffff;
    let path = dir.join(format!("{prefix}_{}_{:08x}.json", found.leg, h));
    let _ = std::fs::write(&path, serde_json::to_string_pretty(&rf).unwrap());
    path
}

pub fn read_replay(path: &Path) -> Result<ReplayFile, String> {
    let s = std::fs::read_to_string(path).map_err(|e| format!("{}: {e}", path.display()))?;
    serde_json::from_str(&s).map_err(|e| format!("{}: {e}", path.display()))
}

pub fn decode<T: DeserializeOwned>(spec: &J) -> Result<T, String> {
    serde_json::from_value(spec.clone()).map_err(|e| format!("cannot decode spec: {e}"))
}

// ---------------------------------------------------------------------------------------------
// Report / evidence

pub struct Report {
    pub property: String,
    pub level: String,
    pub rule: String,
    pub assumptions: Vec<String>,
    pub legs: Vec<LegResult>,
    /// problems that make the run inconclusive (exit 2)
    pub inconclusive: Vec<String>,
    pub extra: BTreeMap<String, J>,
}

impl Report {
    pub fn new(property: &str, level: &str, rule: &str) -> Report {
        Report {
            property: property.to_string(),
            level: level.to_string(),
            rule: rule.to_string(),
            assumptions: vec![],
            legs: vec![],
            inconclusive: vec![],
            extra: BTreeMap::new(),
        }
    }
    pub fn total(&self) -> Stats {
        let mut s = Stats::new();
        for l in &self.legs {
            let mut c = Stats::new();
            c.evaluations = l.stats.evaluations;
            c.nontrivial = l.stats.nontrivial.clone();
            c.classes = l.stats.classes.clone();
            c.known = l.stats.known.clone();
            c.excluded = l.stats.excluded.clone();
            c.rejected = l.stats.rejected;
            c.oracle_panics = l.stats.oracle_panics;
            c.survey = l.stats.survey.clone();
            c.samples = l.stats.samples.iter().take(4).cloned().collect();
            s.merge(c);
        }
        s
    }
    /// require a class to be reached at least `min` times, else the run is inconclusive
    pub fn require_class(&mut self, class: &str, min: u64) {
        let n = self.total().class_count(class);
        if n < min {
            self.inconclusive
                .push(format!("generator reached class '{class}' {n} times (< {min})"));
        }
    }
}

pub fn write_evidence(ctx: &Ctx, rep: &Report, wall_s: f64, violations: usize, known_lines: &[String]) {
    let tot = rep.total();
    let mut coverage = serde_json::Map::new();
    coverage.insert("evaluations".into(), json!(tot.evaluations));
    coverage.insert("distinct_nontrivial".into(), json!(tot.nontrivial.len()));
    coverage.insert("rule".into(), json!(rep.rule));
    coverage.insert("samples".into(), json!(tot.samples));
    coverage.insert("classes".into(), json!(tot.classes));
    coverage.insert("excluded_known".into(), json!(tot.excluded));
    coverage.insert("suppressed_by_known_finding".into(), json!(tot.known));
    coverage.insert("rejected".into(), json!(tot.rejected));
    coverage.insert("oracle_panics".into(), json!(tot.oracle_panics));
    coverage.insert(
        "legs".into(),
        json!(rep
            .legs
            .iter()
            .map(|l| json!({"leg": l.leg, "evaluations": l.stats.evaluations, "distinct_nontrivial": l.stats.nontrivial.len(), "wall_s": l.wall_s}))
            .collect::<Vec<_>>()),
    );
    if rep.level == "translation_validation" {
        coverage.insert("programs".into(), json!(tot.evaluations));
        coverage.insert(
            "disagreements_checked".into(),
            json!(tot.class_count("disagreements_checked")),
        );
    }
    for (k, v) in &rep.extra {
        coverage.insert(k.clone(), v.clone());
    }
    coverage.insert("known_findings_reported".into(), json!(known_lines));
    coverage.insert("inconclusive".into(), json!(rep.inconclusive));
    let ev = json!({
        "property_id": rep.property,
        "tier": ctx.tier_name(),
        "seed": ctx.seed,
        "level": rep.level,
        "coverage": J::Object(coverage),
        "assumptions": rep.assumptions,
        "wall_s": wall_s,
        "violations": violations,
    });
    let dir = Path::new(VERIF_ROOT).join("evidence");
    let _ = std::fs::create_dir_all(&dir);
    let _ = std::fs::write(
        dir.join(format!("{}.json", rep.property)),
        serde_json::to_string_pretty(&ev).unwrap(),
    );
}
