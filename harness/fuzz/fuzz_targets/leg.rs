#![no_main]
use libfuzzer_sys::fuzz_target;
use std::sync::OnceLock;

static LEG: OnceLock<(String, String)> = OnceLock::new();

fuzz_target!(|data: &[u8]| {
    let (prop, leg) = LEG.get_or_init(|| (std::env::var("QV_FUZZ_PROP").expect("QV_FUZZ_PROP"), std::env::var("QV_FUZZ_LEG").expect("QV_FUZZ_LEG")));
    qv::fuzzing::fuzz_one(prop, leg, data);
});
