#!/bin/bash
# usage: reconfirm_seed.sh <seeded-name e.g. C02-A> [sqlite]  -- confirm a staged seed in a fresh scratch worktree of the pinned commit
NAME="$1"; FEAT=""; [ "${2:-}" = "sqlite" ] && FEAT="--features sqlite"
V="${NAME##*-}"; WT=/tmp/rc_$NAME
git -C /repo worktree add --detach $WT 5c782e2 >/dev/null 2>&1 || exit 2
mkdir -p $WT/SEED/$V && cp /verif/seeded/$NAME/patch.diff $WT/SEED/$V/ && cp /verif/seeded/$NAME/demo/*.rs $WT/tests/
/verif/tools/confirm_seed.sh $WT $V "CARGO_NET_OFFLINE=true cargo test --offline $FEAT --test seed_demo_$V" > /tmp/confirm_${NAME/-/_}.txt 2>&1
git -C /repo worktree remove --force $WT
