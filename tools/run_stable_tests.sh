#!/bin/bash
# Runs exactly the 403 stable baseline tests (lib unit tests) of a qrlew checkout, offline.
# usage: run_stable_tests.sh <repo-dir>   ; exit 0 iff all 403 pass
set -u
DIR="${1:-/repo}"
HERE="$(cd "$(dirname "$0")" && pwd)"
cd "$DIR" || exit 2
SKIPS=()
while read -r t; do SKIPS+=(--skip "$t"); done < "$HERE/always_fail_tests.txt"
CARGO_NET_OFFLINE=true cargo test --lib --offline -- --exact "${SKIPS[@]}" --test-threads 16 2>&1 | tee /dev/stderr | grep -q "^test result: ok. 403 passed"
