#!/usr/bin/env python3
"""usage: add_harvest_keys.py <PROP> [prefix-filter]: one open finding per unexplained key in /tmp/harvest_<PROP>.txt
(repro copied from violations/<PROP>/survey). Only for keys that are root-cause signatures by construction (panic sites)."""
import json,sys,os,shutil,re
prop=sys.argv[1]; flt=sys.argv[2] if len(sys.argv)>2 else ''
def san(k): return ''.join(c if c.isalnum() else '_' for c in k)
F=json.load(open('/verif/known_findings.json'))
n=0
for l in open(f'/tmp/harvest_{prop}.txt'):
    l=l.strip()
    if not l: continue
    cnt,key=l.split(' ',1)
    if flt and flt not in key: continue
    src=f'/verif/violations/{prop}/survey/{san(key)}.json'
    sig=key.split('|',2)[2] if key.count('|')>=2 else key
    short=''.join(c if c.isalnum() else '_' for c in sig)[:70]
    fid=f'{prop}-P-{short}'
    if any(f['id']==fid for f in F): fid+='_2'
    repro=None; what=''
    if os.path.exists(src):
        os.makedirs(f'/verif/replays/{prop}',exist_ok=True)
        dst=f'replays/{prop}/P_{short}.json'; shutil.copy(src,'/verif/'+dst); repro=dst
        d=json.load(open(src)); what=d['detail'].replace('\n',' ')[:260]
    F.append({"property":prop,"id":fid,"status":"open","what":f"({sig}) {what}","signatures":[key],"repro":repro}); n+=1
json.dump(F,open('/verif/known_findings.json','w'),indent=1,ensure_ascii=False)
print(n,'findings added')
