#!/usr/bin/env python3
# Rebuilds the C06 entries of known_findings.json from a survey run (/tmp/c06_survey.txt + violations/C06/survey/*.json).
import re,json,collections,os,shutil
keys=[]; ex={}
lines=open('/tmp/c06_survey.txt',errors='replace').read().split('\n')
for i,line in enumerate(lines):
    if line.startswith('SURVEY'):
        parts=line.split(); keys.append((int(parts[1]),parts[2]))
        ex[parts[2]]=lines[i+1].strip()[5:] if i+1<len(lines) else ''
groups=collections.defaultdict(lambda: collections.defaultdict(lambda: collections.defaultdict(int)))
panics=collections.defaultdict(list); comp=[]; nonc=[]
for n,k in keys:
    p=k.split('|')
    if p[1]=='outside':
        if p[2].startswith('agg:'): g=(p[2],p[3],p[4]); core=p[5]; cls=p[6]; cause=p[7]
        else: g=(p[2],p[3]); core=p[4]; cls=p[5]; cause=p[6]
        if core=='core': groups[g][cls][cause]+=n
        else: nonc.append((n,k))
    elif 'panic' in p[1]: panics[p[2]].append(k)
    else: comp.append((n,k))
ARITH={'plus','minus','multiply','divide','abs','opposite','least','greatest','ceil','floor','exp','ln','log','sqrt','pow','sign','round','trunc','modulo','gt','lt','gt_eq','lt_eq','cast_as_float','cast_as_integer','cast_as_text','upper','lower','char_length'}
PROT_AGG={'agg:sum','agg:sum_distinct','agg:mean','agg:mean_distinct','agg:min','agg:max'}
byfn=collections.defaultdict(list)
for g,cl in sorted(groups.items()):
    base='C06|outside|'+'|'.join(g)+'|core'; fn,nv=g[0],g[1]; sigs=[]
    if fn in ('sin','cos'):
        for c in sorted(cl):
            if c=='float:interval':
                for cause in sorted(cl[c]): sigs.append(f"{base}|{c}|{cause}")
            else: sigs.append(f"{base}|{c}|*")
    elif fn in ARITH and nv=='value':
        causes=set()
        for c in cl: causes|=set(cl[c])
        for cause in sorted(causes): sigs.append(f"{base}|*|{cause}")
    elif fn in PROT_AGG and nv=='value' and g[2]=='many':
        for c in sorted(cl): sigs.append(f"{base}|{c}|*")
    else: sigs.append(base+'|*')
    byfn[fn]+=sigs
def san(k): return ''.join(c if c.isalnum() else '_' for c in k)
def pick(pred):
    for n,k in sorted(keys,reverse=True):
        if pred(k): return k
F=[f for f in json.load(open('known_findings.json')) if f['property']!='C06']
os.makedirs('replays/C06',exist_ok=True)
for f in os.listdir('replays/C06'): os.remove('replays/C06/'+f)
for fn,sigs in sorted(byfn.items()):
    k=pick(lambda k: k.startswith('C06|outside|'+fn+'|') and '|core|' in k)
    name=f'replays/C06/F_{san(fn)}.json'; shutil.copy(f'violations/C06/survey/{san(k)}.json',name)
    F.append({"property":"C06","id":f"C06-F-{fn}","status":"open","what":f"range propagation of {fn} on arguments of its declared variants excludes a value it produces, e.g. {ex[k][:260]}","signatures":sigs,"repro":name})
k=pick(lambda k: '|noncore|' in k)
shutil.copy(f'violations/C06/survey/{san(k)}.json','replays/C06/G_noncore.json')
F.append({"property":"C06","id":"C06-G-noncore","status":"open","what":f"arguments outside a function's declared variants (optional/nullable arguments, booleans or text where numbers are expected, mixed variants): the Optional/Polymorphic wrappers type the result from one overload while evaluation converts differently, e.g. {ex[k][:260]}","signatures":["C06|outside|*|noncore|*"],"repro":"replays/C06/G_noncore.json"})
kk=pick(lambda k: k.endswith('|beyond_2p53') and '|core|' in k and '|value|' in k and 'agg:' not in k)
shutil.copy(f'violations/C06/survey/{san(kk)}.json','replays/C06/G_special_values.json')
F.append({"property":"C06","id":"C06-G-special-values","status":"open","what":f"results involving numeric edge values (|x| >= 2^53 where int<->float conversion rounds, signed zero, subnormal floats whose text form differs, NaiveDate::MIN/MAX, empty or out-of-range text): the image is computed through a different rounding/formatting path than the value, e.g. {ex[kk][:260]}","signatures":[f"C06|outside|*|value|core|*|{c}" for c in ["beyond_2p53","tiny_float","float_zero","extreme_date","empty_text","extreme_text","extreme_duration"]],"repro":"replays/C06/G_special_values.json"})
if True:
    shutil.copy('replays/C06_keep/G_composition.json','replays/C06/G_composition.json')
    k=sorted(comp,reverse=True)[0][1] if comp else None
    ex[None]='case(is_null(b), (sign(b) < d), sqrt(d)) on {a: -1, b: none, c: -18, d: 0} = 0 is not in the propagated type'
    F.append({"property":"C06","id":"C06-G-composition","status":"open","what":f"composed expressions whose sub-expressions are NULL or of an empty type: comparison results typed option(null)/option(bool{{..}}) exclude the evaluated value, e.g. {ex[k][:260]}","signatures":["C06|tree_outside|composition:*","C06|tree_image_err|composition:*"],"repro":None})
for loc,ks in sorted(panics.items()):
    short=''.join(c if c.isalnum() else '_' for c in loc.split('/')[-1])[:60]
    k=sorted(ks)[0]
    short=f"{len(F)}_{short}"
    name=f'replays/C06/P_{short}.json'; shutil.copy(f'violations/C06/survey/{san(k)}.json',name)
    F.append({"property":"C06","id":f"C06-P-{short}","status":"open","what":f"super_image panics at {loc} although the expression evaluates, e.g. {ex[k][:260]}","signatures":[f"C06|image_panic|{loc}|*",f"C06|tree_image_panic|{loc}"],"repro":name})
json.dump(F,open('known_findings.json','w'),indent=1,ensure_ascii=False)
print(len([f for f in F if f['property']=='C06']),'C06 findings,',sum(len(f['signatures']) for f in F if f['property']=='C06'),'signatures; composition keys:',len(comp))
for f in F:
    if f['id'] in('C06-F-sin','C06-F-plus','C06-F-multiply','C06-F-agg:sum','C06-F-agg:mean','C06-F-abs','C06-F-agg:min'): print(f['id'],f['signatures'])
