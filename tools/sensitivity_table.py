#!/usr/bin/env python3
"""prints the markdown table of seeded changes vs checks from /verif/seeded/*/meta.json"""
import json,glob,os
rows=[]
for d in sorted(glob.glob('/verif/seeded/*/')):
    f=d+'meta.json'
    if not os.path.exists(f): continue
    m=json.load(open(f))
    ran=m.get('what_i_ran',[])
    own=[r for r in ran if r['command'].split()[1]==m['property_broken']]
    others=[r for r in ran if r['command'].split()[1]!=m['property_broken']]
    def cell(r): return ('caught: `%s`'%r['violation_key'][:90].replace('|','\\|')) if r['exit']==1 else ('not caught (exit %d)'%r['exit'])
    what=m.get('what_changed','').split('. ')[0][:150].replace('|','/')
    rows.append('| %s | %s | %s | %s |'%(m['seed'],what,'; '.join(cell(r) for r in own) or m.get('note','—'),'; '.join('%s %s'%(r['command'].split()[1],cell(r)) for r in others) or ''))
print('| seeded change | what it does (first sentence of its author\'s summary) | own property\'s quick check | other checks tried |')
print('|---|---|---|---|')
print('\n'.join(rows))
