#!/usr/bin/env python3
"""writes /verif/seeded/<seed>/meta.json from meta.agent.json, the confirmation logs and seeded/MATRIX.txt"""
import json,os,re,glob
mat={}
for l in open('/verif/seeded/MATRIX.txt'):
    p=l.split(' ',3)
    if len(p)<3 or not p[2].startswith('exit='): continue
    mat.setdefault(p[0],[]).append({"check":p[1],"exit":int(p[2][5:]),"key":(p[3].strip().replace('key: ','') if len(p)>3 else '')})
# fallback: the log of the last individual try of a seed (tools/try_seed.sh) where the matrix has no entry
import time
for f in glob.glob('/tmp/try_*.log'):
    m=re.match(r'/tmp/try_(C\d\d-[A-D])_(C\d\d)\.log',f)
    if not m: continue
    seed,chk=m.group(1),m.group(2)
    if any(r['check']==chk for r in mat.get(seed,[])): continue
    txt=open(f,errors='replace').read()
    viol='\nVIOLATION' in '\n'+txt
    key=''
    mm=re.search(r'^VIOLATION.*?\n(?:.*\n){0,3}?\s*key: (.*)$',txt,re.M)
    if mm: key=mm.group(1)[:160]
    rc=1 if viol else (2 if 'INCONCLUSIVE' in txt else 0)
    mat.setdefault(seed,[]).append({"check":chk,"exit":rc,"key":key,"when":time.strftime('%Y-%m-%d %H:%M',time.localtime(os.path.getmtime(f)))+' (individual try)'})
for d in sorted(glob.glob('/verif/seeded/*/')):
    s=os.path.basename(d.rstrip('/'))
    if not os.path.exists(d+'patch.diff'): continue
    a=json.load(open(d+'meta.agent.json')) if os.path.exists(d+'meta.agent.json') else {}
    runs=mat.get(s,[])
    caught=[r['check'] for r in runs if r['exit']==1]
    meta={
      "seed":s,
      "property_broken":a.get('property',s.split('-')[0]),
      "what_changed":a.get('summary',''),
      "needs_to_manifest":a.get('needs_to_manifest',''),
      "files_changed":a.get('files_changed',[]),
      "origin":"written by a fresh sub-agent that was given only the property text and a scratch worktree; confirmed by me: stable tests (403) pass with the patch, the agent's demonstration fails with it and passes without it",
      "how_to_run":"git -C /repo apply /verif/seeded/%s/patch.diff && (cd /verif && ./check <ID> --tier quick); git -C /repo checkout -- ."%s,
      "what_i_ran":[{"command":"./check %s --tier quick (VERIF_SEED=1)"%r['check'],"exit":r['exit'],"violation_key":r['key'],"run":r.get('when','matrix run with the final checks')} for r in runs],
      "caught_by":caught,
    }
    json.dump(meta,open(d+'meta.json','w'),indent=1,ensure_ascii=False)
print('ok')
