#!/usr/bin/env python3
"""for every STALE-FINDING reported in /tmp/allquick_<ID>.log: replace the finding's repro by a current survey example
(violations/<ID>/survey) whose key matches one of its signatures"""
import json,glob,re,shutil,os,subprocess
F=json.load(open('/verif/known_findings.json'))
byid={f['id']:f for f in F}
def match(sig,key): return re.fullmatch('.*'.join(map(re.escape,sig.split('*'))),key) is not None
stale=set()
for log in glob.glob('/tmp/allquick_C*.log'):
    for l in open(log,errors='replace'):
        m=re.match(r'STALE-FINDING: property=(C\d\d) (\S+) ',l)
        if m: stale.add((m.group(1),m.group(2)))
done=0; missing=[]
for prop,fid in sorted(stale):
    f=byid.get(fid)
    if not f: continue
    cands=[]
    for ex in glob.glob(f'/verif/violations/{prop}/survey/*.json'):
        try: d=json.load(open(ex))
        except Exception: continue
        if any(match(s,d['key']) for s in f['signatures']): cands.append(ex)
    ok=False
    for ex in cands[:6]:
        out=subprocess.run(['/verif/harness/target/release/qv','replay',ex],capture_output=True,text=True).stdout
        d=json.load(open(ex))
        if d['key'] in out or 'KNOWN-FINDING' in out:
            dst=f['repro'] or f'replays/{prop}/{fid}.json'
            shutil.copy(ex,'/verif/'+dst); f['repro']=dst; ok=True; done+=1; break
    if not ok: missing.append(fid)
json.dump(F,open('/verif/known_findings.json','w'),indent=1,ensure_ascii=False)
print('refreshed',done,'still without a reproducing example:',missing)
