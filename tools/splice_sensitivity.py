#!/usr/bin/env python3
"""rewrites the '## Sensitivity log' section of DESIGN.md from seeded/*/meta.json (run tools/write_seed_meta.py first)"""
import subprocess,json,glob
import os
own_mutants=open('/verif/seeded/OWN_MUTANTS.md').read() if os.path.exists('/verif/seeded/OWN_MUTANTS.md') else ''
tab=subprocess.check_output(['python3','/verif/tools/sensitivity_table.py']).decode()
metas=[json.load(open(f)) for f in sorted(glob.glob('/verif/seeded/*/meta.json'))]
own=sum(1 for m in metas if m['property_broken'] in m['caught_by'])
any_=sum(1 for m in metas if m['caught_by'])
intro=f'''## Sensitivity log

Two kinds of deliberate breakage were used to test the checks.

**Seeded changes by independent authors** (`/verif/seeded/<property>-<A..D>/`: `patch.diff`, the author's
demonstration, `meta.json`). Each was written by a fresh sub-agent that saw only the text of one
property and its own scratch worktree of the library — nothing from `/verif` — and had to deliver a
change that compiles, passes the 403 stable tests, breaks the property, looks like an ordinary
refactoring mistake and needs a *specific* input to show. I confirmed every one (stable tests pass with
the patch; the demonstration fails with it and passes without it) and then ran the property's quick
check with the patch applied to `/repo` (`git -C /repo apply …; ./check <ID> --tier quick; git -C /repo
checkout -- .`). A (and B) were written before the checks existed; C and D after, by authors told to
avoid the sites A/B had used. {len(metas)} changes; {own} are reported by their own property's quick check
at `VERIF_SEED=1`, {any_} by at least one check. The second batch was initially missed in 18 of 36 cases; every
miss was traced to the *generator* (a shape it never produced), the generator was extended (see §8),
and the run repeated — the table shows the final state. A finding signature that was too broad hid
two of them (C07-D, C09-C); both findings were narrowed to their actual root cause.

Not reported by the own check: **C05-C** is the same mutation as C02-A (a protected table whose name
differs from its privacy-unit key is treated as public) and is reported by C02, whose generator has
schema-qualified tables; the SQL layer of C05 has none. **C15-B / C15-D** break name resolution of CTEs
inside queries and are reported by C08 (C15's query half is decided there, §8). **C04-C** patches the
very lines of `gaussian_tau` that the `fix:` commit 1faf4ae rewrote and no longer applies; when it was
written C04 did not draw δ below 1e-6 — the extension that reaches that region is what exposed the
genuine cancellation defect in the same function (C04-X1).

{tab}
{own_mutants}
'''
p='/verif/DESIGN.md'; s=open(p).read()
a=s.index('## Sensitivity log')
s=s[:a]+intro
open(p,'w').write(s)
print('ok',len(metas),own,any_)
