#!/bin/bash
# usage: confirm_seed.sh <worktree> <A|B> "<demo command run inside worktree>"
# Confirms: patch applies, compiles + 403 stable tests pass, demo fails with patch, demo passes without.
set -u
WT="$1"; V="$2"; DEMO="$3"
cd "$WT" || exit 2
git checkout -q -- src || exit 2
git apply --check "SEED/$V/patch.diff" || { echo "CONFIRM: patch does not apply"; exit 1; }
git apply "SEED/$V/patch.diff"
if /verif/tools/run_stable_tests.sh "$WT" >/tmp/confirm_$$.log 2>&1; then echo "CONFIRM: stable tests pass with patch"; else echo "CONFIRM: STABLE TESTS FAIL with patch"; tail -5 /tmp/confirm_$$.log; git checkout -q -- src; exit 1; fi
if (eval "$DEMO") >/tmp/confirm_$$.log 2>&1; then echo "CONFIRM: DEMO PASSES with patch (bad)"; R=1; else echo "CONFIRM: demo fails with patch (good)"; R=0; fi
git checkout -q -- src
if (eval "$DEMO") >/tmp/confirm_$$.log 2>&1; then echo "CONFIRM: demo passes without patch (good)"; else echo "CONFIRM: DEMO FAILS without patch (bad)"; tail -5 /tmp/confirm_$$.log; R=1; fi
rm -f /tmp/confirm_$$.log
exit $R
