#!/bin/bash
# usage: harvest.sh <seed> <ID...> : runs the thorough workload of each check in survey mode (no early stop) and lists
# the violation keys that no open finding explains -> /tmp/harvest_<ID>.txt
S=$1; shift
cd /verif
for id in "$@"; do
  VERIF_SURVEY=1 VERIF_TIER=thorough VERIF_SEED=$S ./harness/target/release/qv check $id 2>/dev/null | grep -a "^SURVEY" | sed 's/^SURVEY *//' > /tmp/harvest_raw_$id.txt
  python3 - $id <<'PY'
import sys,json,re
prop=sys.argv[1]
F=[f for f in json.load(open('/verif/known_findings.json')) if f['property']==prop and f['status']=='open']
def match(sig,key): return re.fullmatch('.*'.join(map(re.escape,sig.split('*'))),key) is not None
new={}
for l in open(f'/tmp/harvest_raw_{prop}.txt',errors='replace'):
    l=l.strip()
    if not l: continue
    n,key=l.split(' ',1); key=key.strip()
    if not any(match(s,key) for f in F for s in f['signatures']): new[key]=int(n)
with open(f'/tmp/harvest_{prop}.txt','w') as f:
    for k,v in sorted(new.items()): f.write(f'{v} {k}\n')
print(prop,'unexplained keys:',len(new))
PY
done
