#!/bin/bash
# usage: stage_seed.sh <ID> [sqlite]   -- stage SEED/A,B of /tmp/wt_<ID> into /verif/seeded and confirm them; then remove the worktree
ID="$1"; FEAT=""; [ "${2:-}" = "sqlite" ] && FEAT="--features sqlite"
WT=/tmp/wt2_$ID
for v in A B; do
  [ -d $WT/SEED/$v ] || continue
  case $v in A) w=C;; B) w=D;; esac; d=/verif/seeded/$ID-$w; mkdir -p $d
  cp $WT/SEED/$v/patch.diff $d/; cp -r $WT/SEED/$v/demo $d/ 2>/dev/null; cp $WT/SEED/$v/RUN.md $d/ 2>/dev/null; cp $WT/SEED/$v/meta.json $d/meta.agent.json 2>/dev/null
  [ -f $WT/tests/seed_demo_$v.rs ] || cp $WT/SEED/$v/demo/seed_demo_$v.rs $WT/tests/ 2>/dev/null
  /verif/tools/confirm_seed.sh $WT $v "CARGO_NET_OFFLINE=true cargo test --offline $FEAT --test seed_demo_$v" > /tmp/confirm2_${ID}_$v.txt 2>&1
done
git -C /repo worktree remove --force $WT
