#!/bin/bash
# runs every registered quick check once on the current tree; prints one line per check
cd /verif
S=${1:-1}
for id in $(python3 -c "import json;print(' '.join(c['property_id'] for c in json.load(open('/verif/MANIFEST.json'))['checks']))"); do
  L=/tmp/allquick_$id.log
  VERIF_SEED=$S ./check $id --tier quick > $L 2>&1; rc=$?
  echo "$id exit=$rc $(grep -a "^$id:" $L | tail -1 | cut -c1-120) $(grep -a -c '^VIOLATION' $L) violations $(grep -a '^INCONCLUSIVE' $L | head -1 | cut -c1-100)"
done
