#!/usr/bin/env python3
"""usage: manifest_add.py <ID> <level text> <note> <technique> : registers a check and drops the id from not_applicable"""
import json,sys
pid,text,note,tech=sys.argv[1:5]
m=json.load(open('/verif/MANIFEST.json'))
e={"property_id":pid,"quick_cmd":f"./check {pid} --tier quick","thorough_cmd":f"./check {pid} --tier thorough","evidence_file":f"evidence/{pid}.json",
 "replay_cmd_template":"./check --replay {path}","engine":"qv",
 "level_claimed":{"category":"exploration","text":text,"design_ref":f"DESIGN.md §3 {pid}"},"level_note":note,"technique":tech}
m['checks']=[c for c in m['checks'] if c['property_id']!=pid]+[e]
m['checks'].sort(key=lambda c:c['property_id'])
m['not_applicable']=[n for n in m['not_applicable'] if n.get('property_id')!=pid]
json.dump(m,open('/verif/MANIFEST.json','w'),indent=1)
print('not_applicable now:',[n['property_id'] for n in m['not_applicable']])
