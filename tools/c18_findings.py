#!/usr/bin/env python3
# Rebuild the open C18 findings (one per panic signature) from /tmp/c18_survey.txt + violations/C18/survey
import json,shutil,os
keys=[]; ex={}
lines=open('/tmp/c18_survey.txt',errors='replace').read().split('\n')
for i,line in enumerate(lines):
    if line.startswith('SURVEY'):
        parts=line.split(); keys.append((int(parts[1]),parts[2])); ex[parts[2]]=(lines[i+1].strip()[5:]+' '+lines[i+2].strip())[:300]
def san(k): return ''.join(c if c.isalnum() else '_' for c in k)
F=json.load(open('/verif/known_findings.json'))
old={f['signatures'][0]:f for f in F if f['property']=='C18' and f['status']=='open'}
F=[f for f in F if not (f['property']=='C18' and f['status']=='open')]
os.makedirs('/verif/replays/C18',exist_ok=True)
allk=dict((k,n) for n,k in keys)
for k in sorted(set(list(allk)+list(old))):
    if k in old and k not in allk:
        F.append(old[k]); continue
    sig=k.split('|',2)[2]
    short=''.join(c if c.isalnum() else '_' for c in sig.split('/')[-1])[:60]
    name=f'replays/C18/P_{short}.json'
    shutil.copy(f'/verif/violations/C18/survey/{san(k)}.json','/verif/'+name)
    F.append({"property":"C18","id":f"C18-P-{short}","status":"open","what":f"compilation panics / dies instead of returning an error ({sig}), e.g. {ex[k]}","signatures":[k],"repro":name})
json.dump(F,open('/verif/known_findings.json','w'),indent=1,ensure_ascii=False)
print(len([f for f in F if f['property']=='C18']),'C18 findings')
