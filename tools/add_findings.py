#!/usr/bin/env python3
# usage: add_findings.py <PROP> <json file with [{id, what, signatures, survey_key}]>; copies survey examples as repros
import json,sys,shutil,os
prop=sys.argv[1]; items=json.load(open(sys.argv[2]))
def san(k): return ''.join(c if c.isalnum() else '_' for c in k)
F=json.load(open('/verif/known_findings.json'))
ids={i['id'] for i in items}
F=[f for f in F if f['id'] not in ids]
os.makedirs(f'/verif/replays/{prop}',exist_ok=True)
for it in items:
    repro=None
    if it.get('survey_key'):
        src=f"/verif/violations/{prop}/survey/{san(it['survey_key'])}.json"
        dst=f"replays/{prop}/{it['id'].replace(prop+'-','')}.json"
        shutil.copy(src,'/verif/'+dst); repro=dst
    elif it.get('repro'): repro=it['repro']
    F.append({"property":prop,"id":it['id'],"status":"open","what":it['what'],"signatures":it['signatures'],"repro":repro})
json.dump(F,open('/verif/known_findings.json','w'),indent=1,ensure_ascii=False)
print(len(items),'findings written')
