#!/bin/bash
# usage: try_seed.sh <seeded-dir-name> <property-id> [more ids...]
# applies /verif/seeded/<name>/patch.diff to /repo, runs the quick check(s), reverts. Prints a one-line verdict per check.
set -u
NAME="$1"; shift
P=/verif/seeded/$NAME/patch.diff
cd /repo || exit 2
git diff --quiet || { echo "repo dirty, abort"; exit 2; }
git apply "$P" || { echo "patch does not apply"; exit 2; }
for ID in "$@"; do
  OUT=/tmp/try_${NAME}_$ID.log
  ( cd /verif && timeout 3000 ./check $ID --tier quick ) > $OUT 2>&1; RC=$?
  echo "SEED $NAME check $ID -> exit $RC  $(grep -a -m1 '^VIOLATION' $OUT | cut -c1-150)"
  grep -a -m1 -A3 '^VIOLATION' $OUT | grep -a "key:\|detail:" | cut -c1-300
done
git -C /repo checkout -- . 
rm -rf /verif/violations
# rebuild against the clean tree so that a directly invoked binary is never the mutated one
( cd /verif/harness && CARGO_NET_OFFLINE=true cargo build --release --offline --bin qv >/dev/null 2>&1 )
