#!/bin/bash
# runs every seeded change against its own property's quick check (and extra ids given per seed in tools/seed_extra.txt)
# output: /verif/seeded/MATRIX.txt lines "<seed> <check> <exit> <key>"
cd /verif
OUT=/verif/seeded/MATRIX.txt; : > $OUT
for d in seeded/*/; do
  s=$(basename $d); [ -f $d/patch.diff ] || continue
  p=${s%-*}
  ids="$p $(grep "^$s " tools/seed_extra.txt 2>/dev/null | cut -d' ' -f2-)"
  cd /repo; git diff --quiet || { echo "repo dirty"; exit 2; }
  git apply /verif/$d/patch.diff || { echo "$s patch-does-not-apply" >> $OUT; continue; }
  for id in $ids; do
    L=/tmp/matrix_${s}_$id.log
    ( cd /verif && VERIF_MAX_SHRINK_MS=5000 timeout 3000 ./check $id --tier quick ) > $L 2>&1; rc=$?
    key=$(grep -a -m1 -A3 '^VIOLATION' $L | grep -a -m1 "key:" | cut -c1-160)
    echo "$s $id exit=$rc $key" >> $OUT
  done
  git -C /repo checkout -- .
  cd /verif
done
rm -rf /verif/violations
( cd /verif/harness && CARGO_NET_OFFLINE=true cargo build --release --offline --bin qv >/dev/null 2>&1 )
echo DONE >> $OUT
